(* Lemmas/C02_LindigDicts.v — the index / children_dict / parents_dict bookkeeping of
   lindig_algorithm (Model/FromContextLattice.v): the concepts it builds are those of the plain
   work-set loop, and when the loop ends the two dictionaries have one key per concept and hold
   exactly the pairs (c, x) with x a neighbour returned by direct_super_concepts(c) - children_dict
   indexed by x, parents_dict by c.  Generic in the side. *)
From Coq Require Import Permutation.
From FCA Require Import Base.ListSet Model.BinTable Model.FormalContext Model.ConceptConstruction
     Model.LatticeOrder Model.FromContextLattice Spec.Galois Spec.Closure
     Lemmas.C02 Lemmas.C02_Sofia Lemmas.C02_CbOModel Lemmas.C02_Lindig Lemmas.C02_LindigComplete
     Lemmas.BitRow Lemmas.C03_closed.

Definition cdflt : fconcept := mkC [] [] [] [].
Definition ext_at (cs : list fconcept) (i : nat) : list nat := c_ext_i (nth i cs cdflt).

(* ------------------------------------------------------------ index[x] *)

Lemma index_in_from_known k cs x :
  In (c_ext_i x) (extents cs) ->
  k <= index_in_from k cs x < k + length cs /\ ext_at cs (index_in_from k cs x - k) = c_ext_i x.
Proof.
  revert k. induction cs as [|c cs IH]; intros k H; [destruct H|]. cbn [index_in_from].
  destruct (nat_list_eqb (c_ext_i c) (c_ext_i x)) eqn:E.
  - apply nat_list_eqb_eq in E. simpl. rewrite Nat.sub_diag. unfold ext_at. simpl. split; [lia | exact E].
  - destruct H as [H|H]; [apply nat_list_eqb_eq in H; congruence|].
    destruct (IH (S k) H) as [H1 H2]. split; [simpl; lia|].
    replace (index_in_from (S k) cs x - k) with (S (index_in_from (S k) cs x - S k)) by lia.
    exact H2.
Qed.

Lemma index_in_known cs x : In (c_ext_i x) (extents cs) ->
  index_in cs x < length cs /\ ext_at cs (index_in cs x) = c_ext_i x.
Proof.
  intros H. destruct (index_in_from_known 0 cs x H) as [H1 H2]. unfold index_in.
  rewrite Nat.sub_0_r in H2. split; [lia | exact H2].
Qed.

Lemma index_in_from_new k cs x : ~ In (c_ext_i x) (extents cs) ->
  index_in_from k (cs ++ [x]) x = k + length cs.
Proof.
  revert k. induction cs as [|c cs IH]; intros k H; cbn [index_in_from app].
  - assert (E : nat_list_eqb (c_ext_i x) (c_ext_i x) = true) by (apply nat_list_eqb_eq; reflexivity).
    rewrite E. simpl. lia.
  - destruct (nat_list_eqb (c_ext_i c) (c_ext_i x)) eqn:E.
    + exfalso. apply H. left. apply nat_list_eqb_eq. exact E.
    + rewrite IH by (intros H'; apply H; right; exact H'). simpl. lia.
Qed.

Lemma index_in_from_app k cs more x : In (c_ext_i x) (extents cs) ->
  index_in_from k (cs ++ more) x = index_in_from k cs x.
Proof.
  revert k. induction cs as [|c cs IH]; intros k H; [destruct H|]. cbn [index_in_from app].
  destruct (nat_list_eqb (c_ext_i c) (c_ext_i x)) eqn:E; [reflexivity|].
  apply IH. destruct H as [H|H]; [apply nat_list_eqb_eq in H; congruence | exact H].
Qed.

Lemma ext_at_app cs more i : i < length cs -> ext_at (cs ++ more) i = ext_at cs i.
Proof. intros H. unfold ext_at. rewrite app_nth1 by exact H. reflexivity. Qed.

Lemma ext_at_in cs i : i < length cs -> In (ext_at cs i) (extents cs).
Proof. intros H. unfold ext_at, extents. apply in_map. apply nth_In. exact H. Qed.

Lemma ext_at_inj cs i j : NoDup (extents cs) -> i < length cs -> j < length cs ->
  ext_at cs i = ext_at cs j -> i = j.
Proof.
  intros Hnd Hi Hj E. unfold extents in Hnd.
  apply (proj1 (NoDup_nth (map c_ext_i cs) []) Hnd i j); try (rewrite map_length; assumption).
  unfold ext_at in E. rewrite (nth_map_in c_ext_i cs i [] cdflt Hi), (nth_map_in c_ext_i cs j [] cdflt Hj). exact E.
Qed.

Lemma index_in_unique cs x i : NoDup (extents cs) -> i < length cs -> c_ext_i x = ext_at cs i ->
  index_in cs x = i.
Proof.
  intros Hnd Hi E. assert (Hin : In (c_ext_i x) (extents cs)) by (rewrite E; apply ext_at_in; exact Hi).
  destruct (index_in_known cs x Hin) as [H1 H2]. apply (ext_at_inj cs); try assumption. congruence.
Qed.

Lemma In_extents_nth cs A : In A (extents cs) -> exists i, i < length cs /\ ext_at cs i = A.
Proof.
  intros H. unfold extents in H. apply in_map_iff in H. destruct H as [c [E Hc]].
  destruct (In_nth cs c cdflt Hc) as [i [Hi Ei]]. exists i. split; [exact Hi|]. unfold ext_at. rewrite Ei. exact E.
Qed.

(* ------------------------------------------------------------ absorb_d *)

Lemma absorb_d_proj cid dsups : forall cs q ch pa cs' q' ch' pa',
  absorb_d cid dsups cs q ch pa = (cs', q', ch', pa') -> absorb dsups cs q = (cs', q').
Proof.
  induction dsups as [|x rest IH]; intros cs q ch pa cs' q' ch' pa' E; simpl in *.
  - inversion E. reflexivity.
  - destruct (known cs x); eapply IH; exact E.
Qed.

Lemma absorb_app dsups : forall cs q cs' q', absorb dsups cs q = (cs', q') -> exists more, cs' = cs ++ more.
Proof.
  induction dsups as [|x rest IH]; intros cs q cs' q' E; simpl in E.
  - inversion E. exists []. rewrite app_nil_r. reflexivity.
  - destruct (known cs x).
    + eapply IH; exact E.
    + destruct (IH _ _ _ _ E) as [more Hm]. exists ([x] ++ more). rewrite Hm, <- app_assoc. reflexivity.
Qed.

Lemma absorb_d_spec cid dsups : forall cs q ch pa cs' q' ch' pa',
  absorb_d cid dsups cs q ch pa = (cs', q', ch', pa') ->
  (NoDup (map fst ch) -> NoDup (map fst ch')) /\
  (NoDup (map fst pa) -> NoDup (map fst pa')) /\
  (forall i, has_key ch' i <-> has_key ch i \/ exists x, In x dsups /\ index_in cs' x = i) /\
  (forall j, has_key pa' j <-> has_key pa j \/ (j = cid /\ dsups <> [])) /\
  (forall i j, In j (get ch' i) <-> In j (get ch i) \/ (j = cid /\ exists x, In x dsups /\ index_in cs' x = i)) /\
  (forall j i, In i (get pa' j) <-> In i (get pa j) \/ (j = cid /\ exists x, In x dsups /\ index_in cs' x = i)).
Proof.
  induction dsups as [|x rest IH]; intros cs q ch pa cs' q' ch' pa' E; cbn [absorb_d] in E.
  - inversion E; subst. split; [auto|]. split; [auto|]. split; [|split; [|split]].
    + intros i. split; [auto | intros [H|[y [[] _]]]; exact H].
    + intros j. split; [auto | intros [H|[_ H]]; [exact H | exfalso; apply H; reflexivity]].
    + intros i j. split; [auto | intros [H|[_ [y [[] _]]]]; exact H].
    + intros j i. split; [auto | intros [H|[_ [y [[] _]]]]; exact H].
  - set (cs1 := if known cs x then cs else cs ++ [x]) in *.
    set (q1 := if known cs x then q else q ++ [x]) in *.
    assert (E' : absorb_d cid rest cs1 q1
                   (upd (index_in cs1 x) (get ch (index_in cs1 x) ++ [cid]) ch)
                   (upd cid (get pa cid ++ [index_in cs1 x]) pa) = (cs', q', ch', pa')).
    { unfold cs1, q1. destruct (known cs x); exact E. }
    clear E.
    assert (Hkn : In (c_ext_i x) (extents cs1)).
    { unfold cs1. destruct (known cs x) eqn:Ek; [apply known_In; exact Ek|].
      unfold extents. rewrite map_app. apply in_or_app. right. left. reflexivity. }
    destruct (absorb_app rest cs1 q1 cs' q' (absorb_d_proj _ _ _ _ _ _ _ _ _ _ E')) as [more Hmore].
    assert (Hidx : index_in cs' x = index_in cs1 x).
    { rewrite Hmore. unfold index_in. apply index_in_from_app. exact Hkn. }
    set (xid := index_in cs1 x) in *.
    destruct (IH _ _ _ _ _ _ _ _ E') as [I1 [I2 [I3 [I4 [I5 I6]]]]].
    split; [intros H; apply I1, NoDup_keys_upd, H|].
    split; [intros H; apply I2, NoDup_keys_upd, H|].
    split; [|split; [|split]].
    + intros i. rewrite I3, has_key_upd. split.
      * intros [[->|H]|[y [Hy Ey]]]; [right; exists x; split; [left; reflexivity | exact Hidx] | left; exact H
                                     | right; exists y; split; [right; exact Hy | exact Ey]].
      * intros [H|[y [[<-|Hy] Ey]]]; [left; right; exact H | left; left; congruence
                                      | right; exists y; auto].
    + intros j. rewrite I4, has_key_upd. split.
      * intros [[->|H]|[-> _]]; [right; split; [reflexivity | discriminate] | left; exact H
                                | right; split; [reflexivity | discriminate]].
      * intros [H|[-> _]]; [left; right; exact H | left; left; reflexivity].
    + intros i j. rewrite I5. destruct (Nat.eq_dec xid i) as [<-|Hne].
      * rewrite get_upd_same, in_app_iff. simpl. split.
        -- intros [[H|[<-|[]]]|[-> [y [Hy Ey]]]];
             [left; exact H | right; split; [reflexivity | exists x; split; [left; reflexivity | exact Hidx]]
              | right; split; [reflexivity | exists y; split; [right; exact Hy | exact Ey]]].
        -- intros [H|[-> [y [[<-|Hy] Ey]]]]; [left; left; exact H | left; right; left; reflexivity
                                              | right; split; [reflexivity | exists y; auto]].
      * rewrite get_upd_other by exact Hne. split.
        -- intros [H|[-> [y [Hy Ey]]]]; [left; exact H | right; split; [reflexivity | exists y; split; [right; exact Hy | exact Ey]]].
        -- intros [H|[-> [y [[<-|Hy] Ey]]]]; [left; exact H | exfalso; apply Hne; congruence
                                              | right; split; [reflexivity | exists y; auto]].
    + intros j i. rewrite I6. destruct (Nat.eq_dec cid j) as [<-|Hne].
      * rewrite get_upd_same, in_app_iff. simpl. split.
        -- intros [[H|[<-|[]]]|[_ [y [Hy Ey]]]];
             [left; exact H | right; split; [reflexivity | exists x; split; [left; reflexivity | exact Hidx]]
              | right; split; [reflexivity | exists y; split; [right; exact Hy | exact Ey]]].
        -- intros [H|[_ [y [[<-|Hy] Ey]]]]; [left; left; exact H | left; right; left; congruence
                                             | right; split; [reflexivity | exists y; auto]].
      * rewrite get_upd_other by exact Hne. split.
        -- intros [H|[-> _]]; [left; exact H | congruence].
        -- intros [H|[-> _]]; [left; exact H | congruence].
Qed.

(* ------------------------------------------------------------ list plumbing *)

Lemma nth_split_remove {A} (l : list A) k d : k < length l ->
  l = firstn k l ++ nth k l d :: skipn (S k) l.
Proof.
  revert k. induction l as [|a l IH]; intros k Hk; [simpl in Hk; lia|].
  destruct k as [|k]; [reflexivity|]. simpl. f_equal. apply IH. simpl in Hk. lia.
Qed.

Lemma remove_nth_NoDup {A} (l : list A) k d : NoDup l -> k < length l ->
  ~ In (nth k l d) (remove_nth k l) /\ NoDup (remove_nth k l).
Proof.
  intros Hnd Hk. rewrite (nth_split_remove l k d Hk) in Hnd. apply NoDup_remove in Hnd.
  unfold remove_nth. tauto.
Qed.

Lemma map_remove_nth {A B} (f : A -> B) k l : map f (remove_nth k l) = remove_nth k (map f l).
Proof. unfold remove_nth. rewrite map_app, firstn_map, skipn_map. reflexivity. Qed.

Lemma absorb_queue_inv dsups : forall cs q cs' q',
  NoDup (extents cs) -> NoDup (extents q) -> incl (extents q) (extents cs) ->
  absorb dsups cs q = (cs', q') ->
  NoDup (extents q') /\ incl (extents q') (extents cs') /\
  (forall A, In A (extents q') -> In A (extents q) \/ ~ In A (extents cs)) /\
  (forall A, In A (extents cs') -> In A (extents cs) \/ In A (extents q')).
Proof.
  induction dsups as [|x rest IH]; intros cs q cs' q' Hnc Hnq Hqc E; simpl in E.
  - inversion E; subst. repeat split; auto.
  - destruct (known cs x) eqn:Ek.
    + eapply IH; eassumption.
    + assert (Hx : ~ In (c_ext_i x) (extents cs)).
      { intros H. apply known_In in H. congruence. }
      destruct (IH (cs ++ [x]) (q ++ [x]) cs' q') as [J1 [J2 [J3 J4]]]; try exact E.
      * unfold extents. rewrite map_app. apply NoDup_app_snoc; [exact Hnc | exact Hx].
      * unfold extents. rewrite map_app. apply NoDup_app_snoc; [exact Hnq|]. intros H. apply Hx, Hqc, H.
      * unfold extents. rewrite !map_app. intros A HA. apply in_app_or in HA. apply in_or_app.
        destruct HA as [HA|HA]; [left; apply Hqc; exact HA | right; exact HA].
      * split; [exact J1|]. split; [exact J2|]. split.
        -- intros A HA. destruct (J3 A HA) as [H|H].
           ++ unfold extents in H. rewrite map_app in H. apply in_app_or in H.
              destruct H as [H|[<-|[]]]; [left; exact H | right; exact Hx].
           ++ right. intros H'. apply H. unfold extents. rewrite map_app. apply in_or_app. left. exact H'.
        -- intros A HA. destruct (J4 A HA) as [H|H]; [|right; exact H].
           unfold extents in H. rewrite map_app in H. apply in_app_or in H.
           destruct H as [H|[<-|[]]]; [left; exact H|]. right.
           destruct (absorb_facts rest _ _ _ _ E) as [_ [I2 _]].
           unfold extents. apply in_map. apply I2. apply in_or_app. right. left. reflexivity.
Qed.

(* ------------------------------------------------------------ the loop invariant *)

Section Dicts.
Variable sd : lindig_side.
Variable ord : list nat -> list nat.
Variable pick : list fconcept -> nat.
Hypothesis Hord : forall l, incl (ord l) l.
Hypothesis Hint_r : forall A, in_range (s_n sd) A -> in_range (s_w sd) (s_int sd A).
Hypothesis Hext_r : forall B, in_range (s_w sd) B -> in_range (s_n sd) (s_ext sd B).
Hypothesis Hiei : forall A, in_range (s_n sd) A -> s_int sd (s_ext sd (s_int sd A)) = s_int sd A.
Hypothesis Hext_sub : forall B, in_range (s_w sd) B -> In (s_ext sd B) (sublists (seq 0 (s_n sd))).

Notation dsc := (direct_super_concepts sd ord).

(* concept i is among the neighbours direct_super_concepts returns for concept j *)
Definition nbr (cs : list fconcept) (j i : nat) : Prop :=
  In (ext_at cs i) (extents (dsc (nth j cs cdflt))).
(* concept j has been taken out of the work set *)
Definition done (cs q : list fconcept) (j : nat) : Prop :=
  j < length cs /\ ~ In (ext_at cs j) (extents q).

Record DInv (cs q : list fconcept) (ch pa : assoc) : Prop := {
  di_good : Forall (side_good sd) cs;
  di_goodq : Forall (side_good sd) q;
  di_nd : NoDup (extents cs);
  di_ndq : NoDup (extents q);
  di_qin : incl (extents q) (extents cs);
  di_closed : forall j, done cs q j -> forall x, In x (dsc (nth j cs cdflt)) -> In (c_ext_i x) (extents cs);
  di_kch : NoDup (map fst ch);
  di_kpa : NoDup (map fst pa);
  di_keys_ch : forall i, has_key ch i <-> i < length cs;
  di_keys_pa : forall j, has_key pa j <-> done cs q j;
  di_ch : forall i j, In j (get ch i) <-> done cs q j /\ i < length cs /\ nbr cs j i;
  di_pa : forall j i, In i (get pa j) <-> done cs q j /\ i < length cs /\ nbr cs j i
}.

Lemma dsc_nth_eq cs j c : ext_at cs j = c_ext_i c -> dsc (nth j cs cdflt) = dsc c.
Proof. intros E. apply dsc_ext_eq. exact E. Qed.

(* one iteration of the while loop *)
Lemma DInv_step cs q ch pa q0 :
  DInv cs q ch pa -> q <> [] -> pick q < length q ->
  let k := pick q in
  let c := nth k q q0 in
  let q' := remove_nth k q in
  let c_id := index_in cs c in
  match dsc c with
  | [] => DInv cs q' ch (upd c_id [] pa)
  | dsups => let '(cs', q'', ch', pa') := absorb_d c_id dsups cs q' ch pa in DInv cs' q'' ch' pa'
  end.
Proof.
  intros [Hg Hgq Hnd Hndq Hqin Hcl Hkch Hkpa Hkeych Hkeypa Hch Hpa] Hne Hk k c q' c_id.
  assert (Hcq : In c q) by (apply nth_In; exact Hk).
  assert (Hcin : In (c_ext_i c) (extents cs)) by (apply Hqin, in_map, Hcq).
  destruct (index_in_known cs c Hcin) as [Hj0 Ej0]. fold c_id in Hj0, Ej0.
  assert (Hcg : side_good sd c) by (rewrite Forall_forall in Hgq; apply Hgq; exact Hcq).
  (* the work set after the pop *)
  assert (Eq' : extents q' = remove_nth k (extents q)) by apply map_remove_nth.
  assert (Hkq : k < length (extents q)) by (unfold extents; rewrite map_length; exact Hk).
  assert (Ecn : nth k (extents q) [] = c_ext_i c).
  { unfold extents. rewrite (nth_map_in c_ext_i q k [] q0 Hk). reflexivity. }
  destruct (remove_nth_NoDup (extents q) k [] Hndq Hkq) as [Hcnot Hndq']. rewrite Ecn, <- Eq' in Hcnot. rewrite <- Eq' in Hndq'.
  assert (Hq'sub : incl (extents q') (extents q)) by (rewrite Eq'; apply remove_nth_incl).
  assert (Hqsplit : forall A, In A (extents q) -> A = c_ext_i c \/ In A (extents q')).
  { intros A HA. rewrite Eq'. rewrite <- Ecn. apply in_remove_nth. exact HA. }
  assert (Hdone' : forall j, done cs q' j <-> done cs q j \/ j = c_id).
  { intros j. unfold done. split.
    - intros [Hj Hn]. destruct (in_dec (list_eq_dec Nat.eq_dec) (ext_at cs j) (extents q)) as [Hin|Hnin]; [|left; auto].
      right. destruct (Hqsplit _ Hin) as [E|H]; [|contradiction].
      apply (ext_at_inj cs); try assumption. congruence.
    - intros [[Hj Hn]| ->]; [split; [exact Hj | intros H; apply Hn, Hq'sub, H]|].
      split; [exact Hj0 | rewrite Ej0; exact Hcnot]. }
  assert (Hnotdone : ~ done cs q c_id).
  { intros [_ H]. apply H. rewrite Ej0. apply in_map. exact Hcq. }
  assert (Hgq' : Forall (side_good sd) q') by (apply (incl_Forall (remove_nth_incl k q) Hgq)).
  assert (Hdscc : dsc (nth c_id cs cdflt) = dsc c) by (apply dsc_nth_eq; exact Ej0).
  destruct (dsc c) as [|d0 drest] eqn:Ed.
  - (* no neighbour: parents_dict[c_id] = [] *)
    constructor; try assumption.
    + intros A HA. apply Hqin, Hq'sub, HA.
    + intros j Hj x Hx. apply Hdone' in Hj. destruct Hj as [Hj| ->]; [apply (Hcl j Hj x Hx)|].
      rewrite Hdscc in Hx. destruct Hx.
    + apply NoDup_keys_upd. exact Hkpa.
    + intros j. rewrite has_key_upd, Hkeypa, Hdone'. tauto.
    + intros i j. rewrite Hch, Hdone'. split; [tauto|]. intros [[H| ->] [Hi Hn]]; [tauto|].
      unfold nbr in Hn. rewrite Hdscc in Hn. destruct Hn.
    + intros j i. destruct (Nat.eq_dec c_id j) as [<-|Hnej].
      * rewrite get_upd_same. split; [intros []|]. intros [_ [_ Hn]]. unfold nbr in Hn. rewrite Hdscc in Hn. destruct Hn.
      * rewrite get_upd_other by exact Hnej. rewrite Hpa, Hdone'. split; [tauto|].
        intros [[H| ->] H2]; [tauto | congruence].
  - (* neighbours: absorb them and record the arcs *)
    set (dsups := d0 :: drest) in *.
    destruct (absorb_d c_id dsups cs q' ch pa) as [[[cs' q''] ch'] pa'] eqn:Ea.
    pose proof (absorb_d_proj _ _ _ _ _ _ _ _ _ _ Ea) as Eab.
    assert (Hdg : Forall (side_good sd) dsups).
    { rewrite <- Ed. apply (dsc_good sd ord Hord Hint_r Hext_r Hiei Hext_sub c Hcg). }
    destruct (absorb_good sd _ _ _ _ _ Hdg Hg Hgq' Hnd Eab) as [Hg' [Hgq'' Hnd']].
    destruct (absorb_facts _ _ _ _ _ Eab) as [I1 [I2 [I3 I4]]].
    destruct (absorb_app _ _ _ _ _ Eab) as [more Hmore].
    destruct (absorb_queue_inv _ _ _ _ _ Hnd Hndq' (fun A HA => Hqin A (Hq'sub A HA)) Eab) as [Q1 [Q2 [Q3 Q4]]].
    destruct (absorb_d_spec _ _ _ _ _ _ _ _ _ _ Ea) as [S1 [S2 [S3 [S4 [S5 S6]]]]].
    assert (Hlen : length cs <= length cs') by (rewrite Hmore, app_length; lia).
    assert (Hold : forall j, j < length cs -> ext_at cs' j = ext_at cs j /\ nth j cs' cdflt = nth j cs cdflt).
    { intros j Hj. rewrite Hmore. split; [apply ext_at_app; exact Hj | apply app_nth1; exact Hj]. }
    assert (Hnew : forall j, length cs <= j -> j < length cs' -> ~ In (ext_at cs' j) (extents cs)).
    { intros j Hj1 Hj2 Hin. apply In_extents_nth in Hin. destruct Hin as [i [Hi Ei]].
      assert (i = j); [|lia]. apply (ext_at_inj cs'); try assumption; [lia|].
      rewrite (proj1 (Hold i Hi)). exact Ei. }
    assert (Hdone'' : forall j, done cs' q'' j <-> j < length cs /\ (done cs q j \/ j = c_id)).
    { intros j. split.
      - intros [Hj Hn]. destruct (Nat.lt_ge_cases j (length cs)) as [Hlt|Hge].
        + split; [exact Hlt|]. apply Hdone'. split; [exact Hlt|]. intros Hin. apply Hn.
          rewrite (proj1 (Hold j Hlt)). unfold extents in *. apply in_map_iff in Hin.
          destruct Hin as [y [Ey Hy]]. rewrite <- Ey. apply in_map. apply I2. exact Hy.
        + exfalso. destruct (Q4 (ext_at cs' j) (ext_at_in cs' j Hj)) as [H|H]; [|contradiction].
          apply (Hnew j Hge Hj H).
      - intros [Hlt Hd]. apply Hdone' in Hd. destruct Hd as [_ Hn]. split; [lia|].
        rewrite (proj1 (Hold j Hlt)). intros Hin. destruct (Q3 _ Hin) as [H|H]; [contradiction|].
        apply H. apply ext_at_in. exact Hlt. }
    (* the arcs recorded in this iteration *)
    assert (Hrec : forall i, (exists x, In x dsups /\ index_in cs' x = i) <-> i < length cs' /\ nbr cs' c_id i).
    { intros i. unfold nbr. rewrite (proj2 (Hold c_id Hj0)), Hdscc. split.
      - intros [x [Hx Ex]]. destruct (index_in_known cs' x (I3 x Hx)) as [H1 H2]. rewrite Ex in H1, H2.
        split; [exact H1|]. rewrite H2. apply in_map. exact Hx.
      - intros [Hi Hin]. unfold extents in Hin. apply in_map_iff in Hin. destruct Hin as [x [Ex Hx]].
        exists x. split; [exact Hx|]. apply index_in_unique; [exact Hnd' | exact Hi | exact Ex]. }
    (* arcs recorded earlier keep their meaning *)
    assert (Hkeep : forall j i, done cs q j ->
              (i < length cs /\ nbr cs j i <-> i < length cs' /\ nbr cs' j i)).
    { intros j i Hd. destruct Hd as [Hj Hnq]. unfold nbr. rewrite (proj2 (Hold j Hj)). split.
      - intros [Hi Hn]. split; [lia|]. rewrite (proj1 (Hold i Hi)). exact Hn.
      - intros [Hi Hn]. destruct (Nat.lt_ge_cases i (length cs)) as [Hlt|Hge].
        + split; [exact Hlt|]. rewrite <- (proj1 (Hold i Hlt)). exact Hn.
        + exfalso. unfold extents in Hn. apply in_map_iff in Hn. destruct Hn as [x [Ex Hx]].
          apply (Hnew i Hge Hi). rewrite <- Ex. apply (Hcl j (conj Hj Hnq) x Hx). }
    constructor; try assumption.
    + intros j Hj x Hx. apply Hdone'' in Hj. destruct Hj as [Hlt [Hd| ->]].
      * rewrite (proj2 (Hold j Hlt)) in Hx. unfold extents. pose proof (Hcl j Hd x Hx) as H.
        unfold extents in H. apply in_map_iff in H. destruct H as [y [Ey Hy]]. rewrite <- Ey. apply in_map, I1, Hy.
      * rewrite (proj2 (Hold c_id Hj0)), Hdscc in Hx. apply I3. exact Hx.
    + apply S1. exact Hkch.
    + apply S2. exact Hkpa.
    + intros i. rewrite S3, Hkeych. split.
      * intros [H|H]; [lia | apply Hrec in H; tauto].
      * intros Hi. destruct (Nat.lt_ge_cases i (length cs)) as [Hlt|Hge]; [left; exact Hlt|]. right.
        (* a new concept is one of the neighbours *)
        destruct (I4 (nth i cs' cdflt) (nth_In cs' cdflt Hi)) as [H|H].
        -- exfalso. apply (Hnew i Hge Hi). unfold ext_at. apply in_map. exact H.
        -- assert (Hq2 : In (ext_at cs' i) (extents q'')) by (unfold ext_at; apply in_map; exact H).
           destruct (Q3 (ext_at cs' i) Hq2) as [H'|H'].
           ++ exfalso. apply (Hnew i Hge Hi). apply Hqin, Hq'sub, H'.
           ++ (* its extent is new, so it was appended while absorbing: it is a neighbour *)
              clear H'. revert Hi Hge. clear -Eab Hnd' Hnd. intros Hi Hge.
              assert (G : forall ds cs0 q0' cs1 q1, absorb ds cs0 q0' = (cs1, q1) ->
                          forall A, In A (extents cs1) -> In A (extents cs0) \/ In A (extents ds)).
              { induction ds as [|x r IHr]; intros cs0 q0' cs1 q1 E A HA; simpl in E.
                - inversion E; subst. left. exact HA.
                - destruct (known cs0 x).
                  + destruct (IHr _ _ _ _ E A HA) as [H|H]; [left; exact H | right; right; exact H].
                  + destruct (IHr _ _ _ _ E A HA) as [H|H]; [|right; right; exact H].
                    unfold extents in H. rewrite map_app in H. apply in_app_or in H.
                    destruct H as [H|[<-|[]]]; [left; exact H | right; left; reflexivity]. }
              destruct (G _ _ _ _ _ Eab (ext_at cs' i) (ext_at_in cs' i Hi)) as [H|H].
              ** exfalso. apply In_extents_nth in H. destruct H as [i' [Hi' Ei']].
                 destruct (absorb_app _ _ _ _ _ Eab) as [more' Hm']. 
                 assert (i' = i); [|lia]. apply (ext_at_inj cs'); try assumption.
                 --- rewrite Hm', app_length. lia.
                 --- rewrite Hm'. rewrite ext_at_app by exact Hi'. rewrite <- Hm'. exact Ei'.
              ** unfold extents in H. apply in_map_iff in H. destruct H as [x [Ex Hx]].
                 exists x. split; [exact Hx|]. apply index_in_unique; [exact Hnd' | exact Hi | exact Ex].
    + intros j. rewrite S4, Hkeypa, Hdone''. split.
      * intros [[Hj Hn]|[-> _]]; [split; [exact Hj | left; split; assumption] | split; [exact Hj0 | right; reflexivity]].
      * intros [Hj [H| ->]]; [left; exact H | right; split; [reflexivity | discriminate]].
    + intros i j. rewrite S5, Hch, Hdone''. split.
      * intros [[Hd Hin]|[-> Hx]].
        -- split; [split; [apply Hd | left; exact Hd]|]. apply (Hkeep j i Hd). exact Hin.
        -- split; [split; [exact Hj0 | right; reflexivity]|]. apply Hrec. exact Hx.
      * intros [[Hj [Hd| ->]] Hin].
        -- left. split; [exact Hd|]. apply (Hkeep j i Hd). exact Hin.
        -- right. split; [reflexivity|]. apply Hrec. exact Hin.
    + intros j i. rewrite S6, Hpa, Hdone''. split.
      * intros [[Hd Hin]|[-> Hx]].
        -- split; [split; [apply Hd | left; exact Hd]|]. apply (Hkeep j i Hd). exact Hin.
        -- split; [split; [exact Hj0 | right; reflexivity]|]. apply Hrec. exact Hx.
      * intros [[Hj [Hd| ->]] Hin].
        -- left. split; [exact Hd|]. apply (Hkeep j i Hd). exact Hin.
        -- right. split; [reflexivity|]. apply Hrec. exact Hin.
Qed.

(* the concepts of the loop with dictionaries are those of the plain loop *)
Lemma loop_d_proj fuel : forall cs q ch pa,
  option_map (fun r => fst (fst r)) (lindig_loop_d fuel sd ord pick cs q ch pa)
  = lindig_loop fuel sd ord pick cs q.
Proof.
  induction fuel as [|fuel IH]; intros cs q ch pa; destruct q as [|q0 qs]; try reflexivity.
  cbn [lindig_loop_d lindig_loop].
  destruct (dsc (nth (pick (q0 :: qs)) (q0 :: qs) q0)) as [|d0 dr] eqn:Ed.
  - cbn [absorb]. apply IH.
  - destruct (absorb_d _ (d0 :: dr) cs (remove_nth (pick (q0 :: qs)) (q0 :: qs)) ch pa)
      as [[[cs' q''] ch'] pa'] eqn:Ea.
    rewrite (absorb_d_proj _ _ _ _ _ _ _ _ _ _ Ea). apply IH.
Qed.

Hypothesis Hpick : forall q, q <> [] -> pick q < length q.

Lemma lindig_loop_d_inv fuel : forall cs q ch pa cs' ch' pa',
  DInv cs q ch pa -> lindig_loop_d fuel sd ord pick cs q ch pa = Some (cs', ch', pa') ->
  DInv cs' [] ch' pa'.
Proof.
  induction fuel as [|fuel IH]; intros cs q ch pa cs' ch' pa' HI E.
  - destruct q; simpl in E; [inversion E; subst; exact HI | discriminate].
  - destruct q as [|q0 qs]; [simpl in E; inversion E; subst; exact HI|].
    cbn [lindig_loop_d] in E.
    assert (Hne : q0 :: qs <> []) by discriminate.
    pose proof (DInv_step cs (q0 :: qs) ch pa q0 HI Hne (Hpick _ Hne)) as Hs.
    cbv zeta in Hs.
    destruct (dsc (nth (pick (q0 :: qs)) (q0 :: qs) q0)) as [|d0 dr] eqn:Ed.
    + eapply IH; [exact Hs | exact E].
    + destruct (absorb_d _ (d0 :: dr) cs (remove_nth (pick (q0 :: qs)) (q0 :: qs)) ch pa)
        as [[[cs1 q1] ch1] pa1] eqn:Ea.
      eapply IH; [exact Hs | exact E].
Qed.

Lemma DInv_init c : side_good sd c -> DInv [c] [c] [(0, [])] [].
Proof.
  intros Hc.
  assert (Hnd0 : forall j, ~ done [c] [c] j).
  { intros j [Hj Hn]. apply Hn. simpl in Hj. assert (j = 0) by lia. subst. left. reflexivity. }
  constructor.
  - constructor; [exact Hc | constructor].
  - constructor; [exact Hc | constructor].
  - constructor; [intros [] | constructor].
  - constructor; [intros [] | constructor].
  - apply incl_refl.
  - intros j Hj. destruct (Hnd0 j Hj).
  - constructor; [intros [] | constructor].
  - constructor.
  - intros i. unfold has_key. simpl. destruct i; simpl; split; intros H; try lia; try congruence.
  - intros j. split; [intros H; exfalso; apply H; reflexivity | intros H; destruct (Hnd0 j H)].
  - intros i j. split; [|intros [H _]; destruct (Hnd0 j H)].
    unfold get. simpl. destruct (Nat.eqb i 0); simpl; intros [].
  - intros j i. split; [intros [] | intros [H _]; destruct (Hnd0 j H)].
Qed.

End Dicts.

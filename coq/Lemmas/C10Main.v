(* Lemmas/C10Main.v — C10 for operands reached by arbitrary histories: when the guard of the
   operation holds (the index computed by the correspondence check is 0), the result of
   a & b, a | b, a ^ b, a - b is a sound poset and answers every query as the fresh poset. *)
From FCA Require Import Base.ListSet Spec.PosetSpec Model.Poset Model.PosetAlgebra
     Lemmas.C09Base Lemmas.C09Query Lemmas.C09Del Lemmas.C09 Lemmas.C10.

Section C10Main.
  Variable E : Type.
  Variable leq eqb : E -> E -> bool.
  Hypothesis PO : partial_order E leq eqb.

  Notation state := (state E).
  Notation combine := (combine E eqb).

  Lemma Tidy_flag_ok (b : state) : Tidy E b -> flag_ok E b.
  Proof. intros H Hf. destruct (H Hf) as [_ [H2 [H3 _]]]. auto. Qed.

  Lemma use_cache_combine o (a b : state) : use_cache (combine o a b) = use_cache a.
  Proof. unfold PosetAlgebra.combine. destruct (use_cache a); reflexivity. Qed.

  Lemma Tidy_combine o (a b : state) : Tidy E (combine o a b).
  Proof.
    intros H. rewrite use_cache_combine in H. unfold PosetAlgebra.combine. rewrite H. cbn. auto.
  Qed.

  Theorem guarded_correct o (a b : state) :
    Inv E leq a -> Inv E leq b -> guard_index E eqb o a b = 0 -> Inv E leq (combine o a b).
  Proof.
    intros [Sa Ta] [Sb Tb] HG. split; [|apply Tidy_combine].
    unfold guard_index in HG. destruct (use_cache a) eqn:Ha; cbn [negb] in HG.
    - destruct o.
      + apply (guarded_correct_and E leq eqb PO); auto.
        destruct (G_and E eqb a b); [reflexivity | discriminate].
      + apply (guarded_correct_or E leq eqb PO); auto using Tidy_flag_ok.
        destruct (G_or E eqb a b); [reflexivity | discriminate].
      + apply (xor_sound E leq eqb PO); auto.
      + apply (guarded_correct_sub E leq eqb PO); auto.
        destruct (G_sub E eqb a b); [reflexivity | discriminate].
    - apply (nocache_correct E leq eqb PO); [exact Ha | apply (snd_nodup _ _ _ _ Sa) | apply (snd_nodup _ _ _ _ Sb)].
  Qed.

  (* whatever queries and mutations were evaluated on either operand before *)
  Theorem reachable_guarded_correct o la lb ca cb wa wb :
    NoDup la -> NoDup lb ->
    valid_history E leq eqb la ca wa -> valid_history E leq eqb lb cb wb ->
    let sa := fst (run E leq eqb (init E la ca) wa) in
    let sb := fst (run E leq eqb (init E lb cb) wb) in
    let r := combine o sa sb in
    guard_index E eqb o sa sb = 0 ->
    Inv E leq r /\
    els r = els_comb E eqb o (els sa) (els sb) /\ NoDup (els r) /\
    forall q, valid_op E r q -> mutating E q = false ->
              snd (step E leq eqb r q) = spec_query E leq eqb (els r) (use_cache r) q.
  Proof.
    intros Na Nb Va Vb sa sb r HG.
    pose proof (reachable_inv E leq eqb PO la ca wa Na Va) as Ia. fold sa in Ia.
    pose proof (reachable_inv E leq eqb PO lb cb wb Nb Vb) as Ib. fold sb in Ib.
    pose proof (guarded_correct o sa sb Ia Ib HG) as Ir. fold r in Ir.
    split; [exact Ir|]. destruct Ir as [Sr _].
    split; [apply (els_comb_exact E leq eqb PO o sa sb); [apply (snd_nodup _ _ _ _ (proj1 Ia)) | apply (snd_nodup _ _ _ _ (proj1 Ib))]|].
    split; [apply (snd_nodup _ _ _ _ Sr)|].
    intros q Hv Hm. apply (answer_is_spec E leq eqb PO r q Sr Hv Hm).
  Qed.
End C10Main.

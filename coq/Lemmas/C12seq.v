(* Lemmas/C12seq.v — the interleaving model agrees with the sequential model: the schedule that
   lets every thread of a chunk run to completion, one after the other, computes scan_chains. *)
From FCA Require Export Lemmas.C12par.

Section SeqSchedule.
Variable lt : nat -> nat -> bool.
Variable rank : nat -> nat.
Variable c : nat.

Fixpoint run_thread (k : nat) (th : thread) (l : local) : thread * local :=
  match k with
  | 0 => (th, l)
  | S k' => let '(th', l') := thread_step lt rank c th l in run_thread k' th' l'
  end.

Lemma run_thread_done k th l : t_done th = true -> run_thread k th l = (th, l).
Proof.
  revert th l. induction k as [|k IH]; intros th l H; [reflexivity|].
  cbn [run_thread]. unfold thread_step. rewrite H. apply IH. exact H.
Qed.

Lemma run_thread_S k th l :
  run_thread (S k) th l = let '(th', l') := thread_step lt rank c th l in run_thread k th' l'.
Proof. reflexivity. Qed.

Lemma run_thread_iter_loop : forall suffix chain idx prev start l,
  let th := {| t_chain := chain; t_rest := suffix; t_idx := idx; t_prev := prev;
               t_start := start; t_done := false |} in
  let '(th', l') := run_thread (S (length suffix)) th l in
  t_done th' = true /\ (l', t_start th') = iter_loop lt rank c (length chain) suffix idx prev l start.
Proof.
  induction suffix as [|x rest IH]; intros chain idx prev start l.
  - cbn. split; reflexivity.
  - cbn [length]. cbv zeta. rewrite run_thread_S. unfold thread_step at 1. cbn [t_done t_rest t_chain t_idx t_prev t_start iter_loop].
    destruct (iter_body lt rank c (length chain) idx prev x l) as [l1 [p|]] eqn:E.
    + rewrite run_thread_done by reflexivity. cbn [t_done t_start]. split; reflexivity.
    + apply (IH chain (S idx) x start l1).
Qed.

(* run thread number k for m steps *)
Lemma run_schedule_repeat : forall m k ts l th, nth_error ts k = Some th ->
  run_schedule lt rank c (repeat k m) ts l =
  let '(th', l') := run_thread m th l in (set_nth k th' ts, l').
Proof.
  induction m as [|m IH]; intros k ts l th H.
  - simpl. f_equal. revert k H. induction ts as [|y ts IHt]; intros k H; destruct k; simpl in *; try discriminate.
    + inversion H. reflexivity.
    + f_equal. apply IHt. exact H.
  - cbn [repeat run_schedule run_thread]. rewrite H.
    destruct (thread_step lt rank c th l) as [th1 l1].
    assert (H1 : nth_error (set_nth k th1 ts) k = Some th1).
    { clear - H. revert k H. induction ts as [|y ts IHt]; intros k H; destruct k; simpl in *; try discriminate; auto. }
    rewrite (IH k (set_nth k th1 ts) l1 th1 H1).
    destruct (run_thread m th1 l1) as [th' l']. f_equal.
    clear. revert k. induction ts as [|y ts IHt]; intros k; destruct k; simpl; auto. f_equal. apply IHt.
Qed.

Lemma run_schedule_app : forall s1 s2 ts l,
  run_schedule lt rank c (s1 ++ s2) ts l =
  let '(ts1, l1) := run_schedule lt rank c s1 ts l in run_schedule lt rank c s2 ts1 l1.
Proof.
  induction s1 as [|k s1 IH]; intros s2 ts l; [reflexivity|].
  cbn [app run_schedule]. destruct (nth_error ts k) as [th|]; [|apply IH].
  destruct (thread_step lt rank c th l) as [th' l']. apply IH.
Qed.

Lemma set_nth_app {A} (pre : list A) x y post :
  set_nth (length pre) x (pre ++ y :: post) = pre ++ x :: post.
Proof. induction pre as [|a pre IH]; simpl; [reflexivity | rewrite IH; reflexivity]. Qed.

Lemma nth_error_app_mid {A} (pre : list A) y post : nth_error (pre ++ y :: post) (length pre) = Some y.
Proof. induction pre as [|a pre IH]; simpl; [reflexivity | exact IH]. Qed.

Theorem seq_schedule_is_scan : forall chs ptrs pre l, length ptrs = length chs ->
  let '(ts', l') := run_schedule lt rank c (seq_schedule (length pre) chs) (pre ++ spawn_all chs ptrs) l in
  let '(l2, ptrs2) := scan_chains lt rank c chs ptrs l in
  l' = l2 /\ skipn (length pre) (map t_start ts') = ptrs2 /\ all_done (skipn (length pre) ts') = true /\
  firstn (length pre) ts' = pre.
Proof.
  induction chs as [|ch chs IH]; intros ptrs pre l Hl; destruct ptrs as [|p ptrs]; simpl in Hl; try lia.
  - simpl. rewrite app_nil_r. rewrite skipn_all2 by (rewrite map_length; lia). rewrite skipn_all2 by lia.
    rewrite firstn_all. auto.
  - cbn [seq_schedule]. rewrite run_schedule_app.
    unfold spawn_all. cbn [combine map fst snd]. fold (spawn_all chs ptrs).
    rewrite (run_schedule_repeat (S (length ch)) (length pre) _ l (spawn ch p) (nth_error_app_mid pre _ _)).
    assert (R := run_thread_iter_loop (skipn p ch) ch p (prev_of ch p) p l).
    cbn zeta in R. change {| t_chain := ch; t_rest := skipn p ch; t_idx := p; t_prev := prev_of ch p; t_start := p; t_done := false |}
      with (spawn ch p) in R.
    (* the thread needs at most S (length (skipn p ch)) steps; more steps change nothing *)
    assert (Hmore : forall m th0 l0, t_done (fst (run_thread m th0 l0)) = true ->
                    forall m', m <= m' -> run_thread m' th0 l0 = run_thread m th0 l0).
    { clear. induction m as [|m IHm]; intros th0 l0 Hd m' Hm'.
      - simpl in *. apply run_thread_done. exact Hd.
      - destruct m' as [|m']; [lia|]. cbn [run_thread] in *.
        destruct (thread_step lt rank c th0 l0) as [th1 l1]. apply IHm; [exact Hd | lia]. }
    destruct (run_thread (S (length (skipn p ch))) (spawn ch p) l) as [th1 l1] eqn:E1.
    destruct R as [Rd Req].
    assert (Emore : run_thread (S (length ch)) (spawn ch p) l = (th1, l1)).
    { rewrite <- E1. apply Hmore; [rewrite E1; exact Rd | rewrite skipn_length; lia]. }
    rewrite Emore. rewrite set_nth_app.
    cbn [scan_chains]. unfold iterate_chain. rewrite <- Req.
    specialize (IH ptrs (pre ++ [th1]) l1 ltac:(lia)).
    rewrite app_length in IH. cbn [length] in IH. replace (length pre + 1) with (S (length pre)) in IH by lia.
    rewrite <- app_assoc in IH. cbn [app] in IH.
    destruct (run_schedule lt rank c (seq_schedule (S (length pre)) chs) (pre ++ th1 :: spawn_all chs ptrs) l1) as [ts' l'].
    destruct (scan_chains lt rank c chs ptrs l1) as [l2 ptrs2].
    destruct IH as [I1 [I2 [I3 I4]]].
    split; [exact I1|].
    assert (Hts : ts' = pre ++ th1 :: skipn (S (length pre)) ts').
    { rewrite <- (firstn_skipn (S (length pre)) ts') at 1. rewrite I4. rewrite <- app_assoc. reflexivity. }
    split; [|split].
    + rewrite Hts at 1. rewrite map_app. rewrite skipn_app, skipn_all2 by (rewrite map_length; lia).
      rewrite map_length, Nat.sub_diag. cbn [app skipn map]. f_equal.
      rewrite <- I2. rewrite Hts at 2. rewrite map_app. rewrite skipn_app.
      rewrite skipn_all2 by (rewrite map_length; lia). rewrite map_length.
      replace (S (length pre) - length pre) with 1 by lia. reflexivity.
    + rewrite Hts. rewrite skipn_app, skipn_all2 by lia. rewrite Nat.sub_diag. cbn [app skipn all_done forallb].
      rewrite Rd. cbn [andb]. exact I3.
    + rewrite Hts. rewrite firstn_app, Nat.sub_diag. cbn [firstn]. rewrite app_nil_r. apply firstn_all.
Qed.
End SeqSchedule.

Corollary seq_schedule_scan lt rank c chs ptrs l : length ptrs = length chs ->
  let '(ts', l') := run_schedule lt rank c (seq_schedule 0 chs) (spawn_all chs ptrs) l in
  let '(l2, ptrs2) := scan_chains lt rank c chs ptrs l in
  l' = l2 /\ map t_start ts' = ptrs2 /\ all_done ts' = true.
Proof.
  intros H. assert (G := seq_schedule_is_scan lt rank c chs ptrs [] l H). simpl in G.
  destruct (run_schedule lt rank c (seq_schedule 0 chs) (spawn_all chs ptrs) l) as [ts' l'].
  destruct (scan_chains lt rank c chs ptrs l) as [l2 ptrs2]. tauto.
Qed.

(* Lemmas/C02_FromContextLatticeBase.v — vocabulary of the end-to-end theorem and the lazily
   ordered ('CbO' / 'Sofia') path. *)
From Coq Require Import Sorting.Sorted Permutation.
From FCA Require Import Base.ListSet Base.Order Model.BinTable Model.FormalContext Model.ConceptConstruction
     Model.LatticeOrder Model.FromContextLattice Spec.Galois Spec.Closure Spec.LatticeOrderSpec
     Lemmas.C02 Lemmas.C02_Sofia Lemmas.C02_CbOModel Lemmas.C02_CloseByOne
     Lemmas.C03 Lemmas.C03_lattice Lemmas.C03_statements.

(* what the user can rely on: (a) exactly the concepts, each once; (b) listed by non-increasing
   extent size, top (all objects) first, bottom (the objects having every attribute) last, and
   these are the cached top / bottom; (c) the four relations are those of extent inclusion *)
Definition lattice_ok (t : table) (v : lattice_view) : Prop :=
  let cs := lv_concepts v in
  let exts := map fst cs in
  lists_all_concepts t cs /\
  StronglySorted by_support cs /\
  lv_top v = Some 0 /\ extent cs 0 = all_objs t /\
  lv_bottom v = Some (length cs - 1) /\ extent cs (length cs - 1) = ext t (all_attrs t) /\
  forall i, i < length cs ->
    same_set (lv_children v i) (spec_children exts i) /\
    same_set (lv_parents v i) (spec_parents exts i) /\
    same_set (lv_descendants v i) (spec_descendants exts i) /\
    same_set (lv_ancestors v i) (spec_ancestors exts i).

Lemma lists_all_full t ps : lists_all_concepts t ps -> full_lattice t ps.
Proof.
  intros [Hnd Hiff]. split; [split|].
  - intros [A B] Hc. apply Hiff in Hc. apply concepts_spec_complete in Hc. apply Hc.
  - assert (HP : Permutation ps (concepts_spec t)).
    { apply NoDup_Permutation; [exact Hnd | |].
      - apply (NoDup_map_inv fst). apply concepts_spec_NoDup.
      - intros [A B]. apply Hiff. }
    eapply Permutation_NoDup; [apply Permutation_sym, Permutation_map, HP | apply concepts_spec_NoDup].
  - intros A B HAB. apply Hiff. apply concepts_spec_complete. split; [exact HAB|].
    destruct HAB as [_ ->]. apply int_in_range.
Qed.

Lemma full_lists t cs : full_lattice t cs -> lists_all_concepts t cs.
Proof.
  intros [[Hc Hnd] Hall]. split; [apply (NoDup_map_inv fst); exact Hnd|].
  intros A B. split.
  - intros H. apply concepts_spec_complete. specialize (Hc _ H). simpl in Hc.
    split; [exact Hc | apply (concept_in_range _ _ _ Hc)].
  - intros H. apply concepts_spec_complete in H. apply Hall. apply H.
Qed.

Lemma same_set_refl (l : list nat) : same_set l l.
Proof. intros x. tauto. Qed.

Theorem lazy_view_ok K l :
  lists_all_concepts (k_table K) (map pair_of_concept l) -> lattice_ok (k_table K) (lazy_view l).
Proof.
  intros H. set (t := k_table K) in *. apply lists_all_full in H.
  change (map pair_of_concept l) with (map pair_c l) in H.
  destruct (C03_listing_proof t (map pair_c l) H) as [Hf [Hs [Ht [Het [Hb Heb]]]]].
  unfold lattice_ok, lazy_view. cbn [lv_concepts lv_children lv_parents lv_descendants lv_ancestors lv_top lv_bottom].
  split; [apply full_lists; exact Hf|]. repeat (split; [assumption|]).
  intros i Hi. destruct (C03_lattice_order_is_inclusion_proof t _ i (proj1 Hf) Hi) as [E1 [E2 [E3 [E4 _]]]].
  rewrite E1, E2, E3, E4. repeat split; apply same_set_refl.
Qed.

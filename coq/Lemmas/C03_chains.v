(* Lemmas/C03_chains.v — ConceptLattice._get_chains: whenever it returns, every chain starts at
   the top concept, steps only parent -> child, and the chains cover all concepts. *)
From Coq Require Import Sorting.Sorted Permutation.
From FCA Require Import Base.ListSet Base.Order Model.LatticeOrder Spec.Closure Spec.LatticeOrderSpec
     Lemmas.C03 Lemmas.C03_lattice.

(* consecutive elements (a, b) of a chain: a is a parent of b *)
Fixpoint steps_down (parents : nat -> list nat) (chain : list nat) : Prop :=
  match chain with
  | a :: ((b :: _) as rest) => In a (parents b) /\ steps_down parents rest
  | _ => True
  end.

Lemma min_list_In l m : min_list l = Some m -> In m l.
Proof.
  revert m. induction l as [|x l IH]; intros m; simpl; [discriminate|].
  destruct (min_list l) as [m'|] eqn:M.
  - intros H. inversion H. destruct (Nat.min_spec x m') as [[_ E]|[_ E]]; rewrite E.
    + left. reflexivity.
    + right. apply IH. reflexivity.
  - intros H. inversion H. left. reflexivity.
Qed.

Lemma index_of_from_found k c l : canonical c -> canon_list l ->
  (exists d, In d l /\ fst d = fst c) ->
  let r := index_of_from k c l in
  k <= r /\ r < k + length l /\ fst (nth (r - k) l cdefault) = fst c.
Proof.
  intros Hcc Hcl. revert k. induction l as [|d l IH]; intros k [d' [Hin E]]; [destruct Hin|]. simpl.
  rewrite (same_extent_canon c d Hcc (Hcl d (or_introl eq_refl))).
  assert (Hcl' : canon_list l) by (intros x Hx; apply Hcl; right; exact Hx).
  specialize (IH Hcl').
  destruct (nat_list_eqb (fst c) (fst d)) eqn:Q.
  - apply nat_list_eqb_eq in Q. rewrite Nat.sub_diag. repeat split; try lia. simpl. congruence.
  - destruct Hin as [->|Hin].
    + rewrite <- E in Q. assert (nat_list_eqb (fst d') (fst d') = true) by (apply nat_list_eqb_eq; reflexivity). congruence.
    + destruct (IH (S k)) as [H1 [H2 H3]]; [exists d'; auto|]. repeat split; try lia.
      replace (index_of_from (S k) c l - k) with (S (index_of_from (S k) c l - S k)) by lia.
      simpl. exact H3.
Qed.

Lemma index_of_found c l : canonical c -> canon_list l -> (exists d, In d l /\ fst d = fst c) ->
  index_of c l < length l /\ fst (nth (index_of c l) l cdefault) = fst c.
Proof.
  intros Hcc Hcl H. destruct (index_of_from_found 0 c l Hcc Hcl H) as [_ [H2 H3]]. unfold index_of.
  rewrite Nat.sub_0_r in H3. split; [lia | exact H3].
Qed.

Lemma index_of_zero c d l : canonical c -> canonical d -> index_of c (d :: l) = 0 -> fst c = fst d.
Proof.
  intros Hcc Hcd. unfold index_of. simpl. rewrite (same_extent_canon c d Hcc Hcd).
  destruct (nat_list_eqb (fst c) (fst d)) eqn:Q.
  - intros _. apply nat_list_eqb_eq. exact Q.
  - intros H. exfalso.
    assert (G : forall k l', k <= index_of_from k c l').
    { intros k l'. revert k. induction l' as [|x l' IH]; intros k; simpl; [lia|].
      destruct (same_extent c x); [lia|]. specialize (IH (S k)). lia. }
    specialize (G 1 l). lia.
Qed.

Section Chains.
  Variable cs : list concept.
  Variable parents : nat -> list nat.
  Let n := length cs.
  Let sorted := sort_concepts cs.
  Let isort_i := fun k => index_of (cnth sorted k) cs.
  Let i_isort := fun i => index_of (cnth cs i) sorted.
  Hypothesis Hrange : forall c p, In p (parents c) -> p < n.
  Hypothesis Hcanon : canon_list cs.

  (* the node in first position of the sorted listing *)
  Definition head_ok (h : nat) : Prop := extent cs h = extent sorted 0.

  Lemma sorted_length : length sorted = n.
  Proof. unfold sorted, n. symmetry. apply Permutation_length. apply sort_perm. Qed.

  Lemma sorted_canon : canon_list sorted.
  Proof. intros c Hc. apply Hcanon. apply (Permutation_in _ (Permutation_sym (sort_perm cs))). exact Hc. Qed.

  Lemma isort_lt k : k < n -> isort_i k < n /\ extent cs (isort_i k) = extent sorted k.
  Proof.
    intros Hk. unfold isort_i. apply index_of_found; [apply cnth_canon, sorted_canon | exact Hcanon|].
    exists (cnth sorted k). split; [|reflexivity].
    apply (Permutation_in _ (Permutation_sym (sort_perm cs))). apply nth_In. pose proof sorted_length as X. unfold sorted, n in *. lia.
  Qed.

  Lemma i_isort_zero p : 0 < n -> i_isort p = 0 -> head_ok p.
  Proof.
    intros Hn H. unfold i_isort in H. unfold head_ok, extent.
    destruct sorted as [|d l] eqn:S; [assert (X := sorted_length); rewrite S in X; simpl in X; lia|].
    apply index_of_zero in H; [exact H | apply cnth_canon, Hcanon|].
    assert (X := sorted_canon). rewrite S in X. apply X. left. reflexivity.
  Qed.

  Lemma chain_walk_ok fuel : forall c s acc ch,
    c < n -> 0 < n -> (s = 0 -> head_ok c) ->
    chain_walk fuel parents i_isort c s acc = Some ch ->
    exists L, ch = L ++ acc /\ L <> [] /\ last L 0 = c /\ head_ok (hd 0 L) /\
              steps_down parents L /\ (forall x, In x L -> x < n).
  Proof.
    induction fuel as [|f IH]; intros c s acc ch Hc Hn Hs; simpl; [discriminate|].
    destruct (Nat.eqb s 0) eqn:E.
    - intros H. inversion H. apply Nat.eqb_eq in E. exists [c]. simpl. repeat split; auto.
      + discriminate.
      + intros x [<-|[]]. exact Hc.
    - destruct (min_list (parents c)) as [p|] eqn:M; [|discriminate].
      apply min_list_In in M. intros H.
      destruct (IH p (i_isort p) (c :: acc) ch (Hrange c p M) Hn (i_isort_zero p Hn) H)
        as [L [E1 [Hne [Hlast [Hhead [Hsteps Hlt]]]]]].
      exists (L ++ [c]). repeat split.
      + rewrite E1, <- app_assoc. reflexivity.
      + destruct L; discriminate.
      + apply last_last.
      + destruct L; [contradiction | exact Hhead].
      + clear -Hsteps Hlast M Hne. revert Hne Hlast Hsteps. induction L as [|a L IHL]; intros Hne Hlast Hsteps; [contradiction|].
        destruct L as [|b L].
        * simpl in *. subst. auto.
        * simpl in Hsteps. destruct Hsteps as [H1 H2]. simpl. split; [exact H1|].
          apply IHL; [discriminate | exact Hlast | exact H2].
      + intros x Hx. apply in_app_iff in Hx. destruct Hx as [Hx|[<-|[]]]; [apply Hlt; exact Hx | exact Hc].
  Qed.

  Definition chain_ok (ch : list nat) : Prop :=
    ch <> [] /\ head_ok (hd 0 ch) /\ steps_down parents ch /\ forall x, In x ch -> x < n.

  Lemma fold_set_add_In chain : forall v x,
    In x (fold_left (fun v x => set_add x v) chain v) <-> In x v \/ In x chain.
  Proof.
    induction chain as [|a chain IH]; intros v x; simpl; [tauto|].
    rewrite IH. unfold set_add. destruct (mem a v) eqn:M.
    - apply mem_In in M. split; [intros [H|H]; auto | intros [H|[->|H]]; auto].
    - rewrite in_app_iff. simpl. split; [intros [[H|[H|[]]]|H]; auto | intros [H|[H|H]]; auto].
  Qed.

  Lemma fold_set_add_NoDup chain : forall v, NoDup v -> NoDup (fold_left (fun v x => set_add x v) chain v).
  Proof.
    induction chain as [|a chain IH]; intros v Hv; simpl; [exact Hv|]. apply IH.
    unfold set_add. destruct (mem a v) eqn:M; [exact Hv|].
    apply mem_false_iff in M. apply NoDup_rev in Hv. rewrite <- (rev_involutive (v ++ [a])).
    apply NoDup_rev. rewrite rev_app_distr. simpl. constructor; [rewrite <- in_rev; exact M | exact Hv].
  Qed.

  Lemma chains_loop_ok fuel : forall visited chains res,
    0 < n -> NoDup visited -> (forall x, In x visited -> x < n) ->
    (forall x, In x visited -> exists ch, In ch chains /\ In x ch) ->
    (forall ch, In ch chains -> chain_ok ch) ->
    chains_loop fuel n parents isort_i i_isort visited chains = Some res ->
    (forall ch, In ch res -> chain_ok ch) /\ forall i, i < n -> exists ch, In ch res /\ In i ch.
  Proof.
    induction fuel as [|f IH]; intros visited chains res Hn Hnd Hlt Hcov Hok; cbn [chains_loop]; [discriminate|].
    destruct (Nat.leb n (length visited)) eqn:Done.
    - intros H. inversion H; subst. split; [exact Hok|]. intros i Hi. apply Hcov.
      apply Nat.leb_le in Done.
      assert (Hincl : incl visited (seq 0 n)) by (intros x Hx; apply in_seq; specialize (Hlt x Hx); lia).
      assert (Hfull : incl (seq 0 n) visited) by (apply (NoDup_length_incl Hnd); [rewrite seq_length; exact Done | exact Hincl]).
      apply Hfull. apply in_seq. lia.
    - destruct (find (fun k => negb (mem (isort_i k) visited)) (rev (seq 0 n))) as [k|] eqn:F; [|discriminate].
      apply find_some in F. destruct F as [Hk _]. apply in_rev in Hk. apply in_seq in Hk.
      destruct (chain_walk (S n) parents i_isort (isort_i k) k []) as [ch|] eqn:W; [|discriminate].
      destruct (isort_lt k) as [Hik Hext]; [lia|].
      destruct (chain_walk_ok (S n) (isort_i k) k [] ch Hik Hn) as [L [E1 [Hne [_ [Hhead [Hsteps HL]]]]]].
      { intros ->. exact Hext. }
      { exact W. }
      rewrite app_nil_r in E1. subst L.
      apply IH; auto.
      + apply fold_set_add_NoDup. exact Hnd.
      + intros x Hx. apply fold_set_add_In in Hx. destruct Hx as [Hx|Hx]; [apply Hlt | apply HL]; exact Hx.
      + intros x Hx. apply fold_set_add_In in Hx. destruct Hx as [Hx|Hx].
        * destruct (Hcov x Hx) as [c' [H1 H2]]. exists c'. split; [apply in_app_iff; left; exact H1 | exact H2].
        * exists ch. split; [apply in_app_iff; right; left; reflexivity | exact Hx].
      + intros c' Hc'. apply in_app_iff in Hc'. destruct Hc' as [Hc'|[<-|[]]]; [apply Hok; exact Hc'|].
        repeat split; assumption.
  Qed.
End Chains.

Lemma parents_nocache_range cs c p : In p (parents_nocache cs c) -> p < length cs.
Proof.
  intros H. unfold parents_nocache, children_of in H.
  apply (sub_loop_incl nat Nat.eqb (fun _ _ => true) nat_eqb_ok) in H.
  unfold ancestors_nocache in H. apply (In_strict_up Nat.eqb (leq_i cs) nat_eqb_ok) in H.
  destruct H as [H _]. apply (In_idxs cs) in H. exact H.
Qed.

(* a parent of b has b among its children *)
Lemma parent_child t cs a b : concept_list t cs -> a < length cs -> b < length cs ->
  In a (parents_nocache cs b) -> In b (children_nocache cs a).
Proof.
  intros HL Ha Hb H.
  rewrite (parents_spec t cs HL b Hb), <- (upper_covers_spec t cs HL b Hb) in H.
  rewrite (children_spec t cs HL a Ha), <- (lower_covers_spec t cs HL a Ha).
  apply (In_upper_covers Nat.eqb (leq_i cs) nat_eqb_ok) in H. destruct H as [H1 [H2 H3]].
  apply In_lower_covers. repeat split; auto. apply (In_idxs cs). exact Hb.
Qed.

Theorem chains_ok_partial t cs chains : full_lattice t cs ->
  get_chains_nocache cs = Some chains ->
  (forall ch, In ch chains ->
     ch <> [] /\ extent cs (hd 0 ch) = all_objs t /\ steps_down (parents_nocache cs) ch /\
     forall x, In x ch -> x < length cs) /\
  (forall i, i < length cs -> exists ch, In ch chains /\ In i ch).
Proof.
  intros HF H. unfold get_chains_nocache, get_chains_of in H.
  assert (Hn : 0 < length cs).
  { destruct (top_exists t cs HF) as [k [Hk _]]. lia. }
  destruct (chains_loop_ok cs (parents_nocache cs) (parents_nocache_range cs)
              (concept_list_canon t cs (proj1 HF)) (S (length cs)) [] [] chains Hn) as [H1 H2]; auto.
  - constructor.
  - intros x [].
  - intros x [].
  - intros ch [].
  - split; [|exact H2]. intros ch Hch. destruct (H1 ch Hch) as [A [B [C D]]].
    repeat split; auto. unfold head_ok in B. rewrite B.
    destruct (listing_full t cs HF) as [HF' HS']. apply (top_first t _ HF' HS').
Qed.

(* Corr/C09.v — executable check for one C09 case: a history of public POSet calls.
   The carrier is nat; [leq a b] is a lookup in the relation matrix of the case.  The model of
   the code and the cache-free spec machine are run on the same history; the outputs of every
   step, and of all queries on the final state, are compared with the implementation's.
   Third level: the implementation's raw cache dictionaries after the history must be sound
   (spec side) and, for <= 8 carriers, equal to the model's caches entry by entry (model side:
   the model's caching discipline is exact there). *)
From FCA Require Export Corr.Common Spec.PosetSpec Model.Poset Model.PosetExt.

Definition mleq (m : list (list bool)) (a b : nat) : bool := nth b (nth a m []) false.

Definition out_eqb (x y : out nat) : bool :=
  match x, y with
  | ONone, ONone => true
  | OBool a, OBool b => Bool.eqb a b
  | OSet a, OSet b => nat_list_eqb a b
  | OList a, OList b => nat_list_eqb a b
  | OOpt None, OOpt None => true
  | OOpt (Some a), OOpt (Some b) => Nat.eqb a b
  | ONat a, ONat b => Nat.eqb a b
  | OEls a, OEls b => nat_list_eqb a b
  | OErr a, OErr b => Nat.eqb a b
  | _, _ => false
  end.
Definition outs_eqb := list_eqb out_eqb.

(* every query on a poset of n elements, in the order the harness issues them *)
Definition all_pairs (n : nat) : list (nat * nat) :=
  flat_map (fun i => map (fun j => (i, j)) (seq 0 n)) (seq 0 n).
Definition final_queries (n : nat) : list (op nat) :=
  map (fun p => QLeq (fst p) (snd p)) (all_pairs n) ++
  flat_map (fun i => [QClosed true i; QClosed false i]) (seq 0 n) ++
  flat_map (fun i => [QCover true i; QCover false i]) (seq 0 n) ++
  [QExtremes true; QExtremes false; QBound true []; QBound false []] ++
  flat_map (fun p => if Nat.ltb (fst p) (snd p)
                     then [QBound true [fst p; snd p]; QBound false [fst p; snd p]] else [])
           (all_pairs n) ++
  [QLen].

Definition xout_eqb (x y : xout nat) : bool :=
  match x, y with
  | XO a, XO b => out_eqb a b
  | XTwo a b, XTwo c d => nat_list_eqb a c && nat_list_eqb b d
  | XMap a, XMap b => list_eqb nat_list_eqb a b
  | _, _ => false
  end.
Definition xouts_eqb := list_eqb xout_eqb.

(* the raw dictionaries _cache_leq, _cache_descendants, _cache_ancestors, _cache_children,
   _cache_parents read from the object *)
Record raw_caches := {
  r_leq : lcache; r_desc : cache; r_anc : cache; r_ch : cache; r_par : cache
}.

Record c09_case := {
  k_matrix : list (list bool);
  k_init : list nat;
  k_cache : bool;
  k_cd : option cache;                (* a true children_dict, or None *)
  k_ops : list (xop nat);
  k_impl : list (xout nat);           (* implementation: output of every step *)
  k_raw : raw_caches;                 (* implementation: the raw caches after the history (all empty when uncached) *)
  k_raw_exact : bool;                 (* compare them entry by entry with the model's caches as well *)
  k_final : list (out nat);           (* implementation: all queries on the final state, then elements *)
  k_sib_n : nat;                      (* aliasing probe: number of sibling posets built from the SAME children_dict object *)
  k_sib : list (out nat)              (* implementation: all queries on each sibling after the history on the main object
                                         (and after the handed-in dictionary was mutated), concatenated *)
}.

Definition c09_init (c : c09_case) : option (state nat) :=
  match k_cd c with
  | Some cd => if k_cache c then init_cd nat (k_init c) cd else Some (init nat (k_init c) false)
  | None => Some (init nat (k_init c) (k_cache c))
  end.

(* a sibling built from the same initial list / dictionary is a separate object: it answers as a
   freshly constructed one, whatever happened to the main object or to the dictionary *)
Definition sibling_answers (c : c09_case) (one : list (out nat)) : list (out nat) :=
  concat (repeat one (k_sib_n c)).

Definition c09_model (c : c09_case) : option (list (xout nat) * list (out nat) * bool) :=
  let leq := mleq (k_matrix c) in
  match c09_init c with
  | None => None
  | Some s0 =>
      let '(s1, outs) := xrun nat leq Nat.eqb s0 (k_ops c) in
      let '(s2, fin) := run nat leq Nat.eqb s1 (final_queries (length (els s1))) in
      let r := k_raw c in
      let '(sf, f0) := run nat leq Nat.eqb s0 (final_queries (length (els s0))) in
      Some (outs, fin ++ [OEls (els s2)],
            (negb (k_raw_exact c) || caches_same nat (r_leq r) (r_desc r) (r_anc r) (r_ch r) (r_par r) s1) &&
            outs_eqb (k_sib c) (sibling_answers c (f0 ++ [OEls (els sf)])))
  end.

(* answers of the cache-free machine, and whether the implementation's raw caches are sound
   (every entry equals the spec value on the elements after the history) *)
Definition c09_spec (c : c09_case) : list (xout nat) * list (out nat) * bool :=
  let leq := mleq (k_matrix c) in
  let '(e1, outs) := xspec_run nat leq Nat.eqb (k_init c) (k_cache c) (k_ops c) in
  let r := k_raw c in
  (outs, map (spec_query nat leq Nat.eqb e1 (k_cache c)) (final_queries (length e1)) ++ [OEls e1],
   raw_sound nat leq e1 (r_leq r) (r_desc r) (r_anc r) (r_ch r) (r_par r) &&
   outs_eqb (k_sib c)
            (sibling_answers c (map (spec_query nat leq Nat.eqb (k_init c) (k_cache c)) (final_queries (length (k_init c)))
                                ++ [OEls (k_init c)]))).

Definition c09_check (c : c09_case) : nat :=
  let same := match c09_model c with
              | Some (o, f, cs) => xouts_eqb (k_impl c) o && outs_eqb (k_final c) f && cs
              | None => false end in
  let '(so, sf, rs) := c09_spec c in
  code_of same (xouts_eqb (k_impl c) so && outs_eqb (k_final c) sf && rs).

Definition c09_show (c : c09_case) :=
  (c09_model c, c09_spec c,
   match c09_init c with
   | Some s0 => Some (fst (xrun nat (mleq (k_matrix c)) Nat.eqb s0 (k_ops c)))
   | None => None end).

(* Corr/C09.v — executable check for one C09 case: a history of public POSet calls.
   The carrier is nat; [leq a b] is a lookup in the relation matrix of the case.  The model of
   the code and the cache-free spec machine are run on the same history; the outputs of every
   step, and of all queries on the final state, are compared with the implementation's. *)
From FCA Require Export Corr.Common Spec.PosetSpec Model.Poset.

Definition mleq (m : list (list bool)) (a b : nat) : bool := nth b (nth a m []) false.

Definition out_eqb (x y : out nat) : bool :=
  match x, y with
  | ONone, ONone => true
  | OBool a, OBool b => Bool.eqb a b
  | OSet a, OSet b => nat_list_eqb a b
  | OList a, OList b => nat_list_eqb a b
  | OOpt None, OOpt None => true
  | OOpt (Some a), OOpt (Some b) => Nat.eqb a b
  | ONat a, ONat b => Nat.eqb a b
  | OEls a, OEls b => nat_list_eqb a b
  | OErr a, OErr b => Nat.eqb a b
  | _, _ => false
  end.
Definition outs_eqb := list_eqb out_eqb.

(* every query on a poset of n elements, in the order the harness issues them *)
Definition all_pairs (n : nat) : list (nat * nat) :=
  flat_map (fun i => map (fun j => (i, j)) (seq 0 n)) (seq 0 n).
Definition final_queries (n : nat) : list (op nat) :=
  map (fun p => QLeq (fst p) (snd p)) (all_pairs n) ++
  flat_map (fun i => [QClosed true i; QClosed false i]) (seq 0 n) ++
  flat_map (fun i => [QCover true i; QCover false i]) (seq 0 n) ++
  [QExtremes true; QExtremes false; QBound true []; QBound false []] ++
  flat_map (fun p => if Nat.ltb (fst p) (snd p)
                     then [QBound true [fst p; snd p]; QBound false [fst p; snd p]] else [])
           (all_pairs n) ++
  [QLen].

Record c09_case := {
  k_matrix : list (list bool);
  k_init : list nat;
  k_cache : bool;
  k_cd : option cache;                (* a true children_dict, or None *)
  k_ops : list (op nat);
  k_impl : list (out nat);            (* implementation: output of every step *)
  k_final : list (out nat)            (* implementation: all queries on the final state, then elements *)
}.

Definition c09_model (c : c09_case) : option (list (out nat) * list (out nat)) :=
  let leq := mleq (k_matrix c) in
  let s0 := match k_cd c with
            | Some cd => if k_cache c then init_cd nat (k_init c) cd else Some (init nat (k_init c) false)
            | None => Some (init nat (k_init c) (k_cache c))
            end in
  match s0 with
  | None => None
  | Some s0 =>
      let '(s1, outs) := run nat leq Nat.eqb s0 (k_ops c) in
      let '(s2, fin) := run nat leq Nat.eqb s1 (final_queries (length (els s1))) in
      Some (outs, fin ++ [OEls (els s2)])
  end.

Definition c09_spec (c : c09_case) : list (out nat) * list (out nat) :=
  let leq := mleq (k_matrix c) in
  let '(e1, outs) := spec_run nat leq Nat.eqb (k_init c) (k_cache c) (k_ops c) in
  (outs, map (spec_query nat leq Nat.eqb e1 (k_cache c)) (final_queries (length e1)) ++ [OEls e1]).

Definition c09_check (c : c09_case) : nat :=
  let same := match c09_model c with
              | Some (o, f) => outs_eqb (k_impl c) o && outs_eqb (k_final c) f
              | None => false end in
  let '(so, sf) := c09_spec c in
  code_of same (outs_eqb (k_impl c) so && outs_eqb (k_final c) sf).

Definition c09_show (c : c09_case) := (c09_model c, c09_spec c).

(* Corr/C20.v — executable check of one C20 case: a numeric table, a regression tree (the fitted
   tree's arrays, as a term), scaling constants, and what the implementation returned:
   DL.predict(K), tree.predict(X) of scikit-learn, and for every constant k the predictions of
   DL*k, of a copy after *=k, of DL/k, of a copy after /=k, each followed by the predictions of
   the original DL afterwards.
   "same as model": all of these equal the Q model's up to 1e-9*max(1,|x|).
   "spec ok" (only when the tree is fitted on the table): the implementation's predictions
   equal [tree_predict] for every row, scaled lattices predict k times (1/k times) the
   implementation's own predictions, and the original's predictions are unchanged exactly. *)
From Coq Require Import ZArith QArith Qabs.
From FCA Require Export Corr.Common Spec.C20_TreeSpec.
Local Open Scope nat_scope.

Record scaled := {
  s_k : Q;
  s_mode : nat;                     (* 0 DL*k   1 copy*=k   2 DL/k   3 copy/=k *)
  s_pred : dres (list Q);           (* predictions of the result *)
  s_orig : list Q                   (* predictions of the original afterwards *)
}.

Record c20_case := {
  d_X : table;
  d_tree : rtree;
  d_impl : dres (list Q);
  d_sklearn : option (list Q);
  d_scaled : list scaled
}.

Definition tol : Q := (1 # 1000000000)%Q.
Definition qmax1 (a : Q) : Q := if Qle_bool 1 a then a else 1%Q.
Definition close (a b : Q) : bool := Qle_bool (Qabs (a - b)) (tol * qmax1 (Qabs b)).
Definition qs_close (a b : list Q) : bool := list_eqb close a b.
Definition qs_same (a b : list Q) : bool := list_eqb Qeq_bool a b.

Definition dres_close (impl model : dres (list Q)) : bool :=
  match impl, model with
  | DOk a, DOk b => qs_close a b
  | DErr a, DErr b => Nat.eqb a b
  | _, _ => false
  end.

Definition m_predict (c : c20_case) : dres (list Q) :=
  match from_tree (d_X c) (d_tree c) with
  | DOk dl => DOk (predict (d_X c) dl)
  | DErr e => DErr e
  end.

Definition m_scaled (c : c20_case) (s : scaled) : dres (list Q) :=
  match from_tree (d_X c) (d_tree c) with
  | DErr e => DErr e
  | DOk dl =>
      match s_mode s with
      | 0 | 1 => DOk (predict (d_X c) (dl_mul dl (s_k s)))
      | _ => match dl_div dl (s_k s) with
             | DOk dl' => DOk (predict (d_X c) dl')
             | DErr e => DErr e
             end
      end
  end.

Definition c20_same (c : c20_case) : bool :=
  dres_close (d_impl c) (m_predict c) &&
  forallb (fun s => dres_close (s_pred s) (m_scaled c s) &&
                    match m_predict c with DOk p => qs_close (s_orig s) p | DErr _ => true end)
          (d_scaled c).

Definition spec_predictions (c : c20_case) : list Q :=
  map (tree_predict (d_tree c)) (d_X c).

Definition c20_spec_ok (c : c20_case) : bool :=
  if negb (fitted (d_X c) (d_tree c)) then true else
  match d_impl c with
  | DErr _ => false
  | DOk p =>
      qs_close p (spec_predictions c) &&
      match d_sklearn c with Some sk => qs_close sk (spec_predictions c) | None => true end &&
      forallb (fun s =>
                 qs_same (s_orig s) p &&
                 match s_mode s, s_pred s with
                 | (0 | 1), DOk ps => qs_close ps (map (fun v => (v * s_k s)%Q) p)
                 | _, DOk ps => negb (Qeq_bool (s_k s) 0) && qs_close ps (map (fun v => (v / s_k s)%Q) p)
                 | (0 | 1), DErr _ => false
                 | _, DErr e => Qeq_bool (s_k s) 0
                 end)
              (d_scaled c)
  end.

Definition c20_check (c : c20_case) : nat := code_of (c20_same c) (c20_spec_ok c).
Definition c20_show (c : c20_case) :=
  (m_predict c, spec_predictions c, fitted (d_X c) (d_tree c), map (m_scaled c) (d_scaled c)).

(* Corr/C20.v — executable check of one C20 case: a numeric table, a regression tree (the fitted
   tree's arrays, as a term), scaling constants, and what the implementation returned:
   DL.predict(K), tree.predict(X) of scikit-learn, and for every constant k the predictions of
   DL*k, of a copy after *=k, of DL/k, of a copy after /=k, each followed by the predictions of
   the original DL afterwards.
   "same as model": all of these equal the Q model's up to 1e-9*max(1,|x|).
   "spec ok" (only when the tree is fitted on the table): the implementation's predictions
   equal [tree_predict] for every row, scaled lattices predict k times (1/k times) the
   implementation's own predictions, and the original's predictions are unchanged exactly. *)
From Coq Require Import ZArith QArith Qabs.
From FCA Require Export Corr.Common Spec.C20_TreeSpec.
Local Open Scope nat_scope.

Record scaled := {
  s_k : Q;
  s_mode : nat;                     (* 0 DL*k   1 copy*=k   2 DL/k   3 copy/=k *)
  s_pred : dres (list Q);           (* predictions of the result *)
  s_orig : list Q                   (* predictions of the original afterwards *)
}.

(* a history on the RESULT of a scaling: r = DL * k (or DL / k), then in-place operations on r *)
Inductive sop := SMul (k : Q) | SDiv (k : Q) | SAdd (k : Q).   (* r *= k | r /= k | r += other * k *)
Record hist := {
  h_k : Q;
  h_div : bool;                         (* r = DL / k instead of DL * k *)
  h_ops : list sop;
  h_fresh : bool;                       (* "r is not DL" *)
  h_steps : list (dres (list Q) * dres (list Q))
     (* (r.predict(K), DL.predict(K)) after creating r and after every operation *)
}.

Record c20_case := {
  d_X : table;
  d_f32 : bool;                         (* every data value is exactly representable in float32 *)
  d_tree : rtree;                       (* the tree's arrays as they were BEFORE the conversion *)
  d_impl : dres (list Q);
  d_sklearn : option (list Q);          (* tree.predict(X) before the conversion *)
  d_sklearn_after : option (list Q);    (* ... and after it *)
  d_input_kept : bool;                  (* value / threshold / children / feature arrays bit-identical afterwards *)
  d_impl2 : dres (list Q);              (* a second conversion of the same tree (other interval engine) *)
  d_scaled : list scaled;
  d_tree2 : rtree;                      (* another tree on the same table, for r += other * k *)
  d_other : dres (list Q);              (* its lattice's predictions *)
  d_hists : list hist
}.

Definition tol : Q := (1 # 1000000000)%Q.
Definition qmax1 (a : Q) : Q := if Qle_bool 1 a then a else 1%Q.
Definition close (a b : Q) : bool := Qle_bool (Qabs (a - b)) (tol * qmax1 (Qabs b)).
Definition qs_close (a b : list Q) : bool := list_eqb close a b.
Definition qs_same (a b : list Q) : bool := list_eqb Qeq_bool a b.

Definition dres_close (impl model : dres (list Q)) : bool :=
  match impl, model with
  | DOk a, DOk b => qs_close a b
  | DErr a, DErr b => Nat.eqb a b
  | _, _ => false
  end.

Definition m_predict (c : c20_case) : dres (list Q) :=
  match from_tree (d_X c) (d_tree c) with
  | DOk dl => DOk (predict (d_X c) dl)
  | DErr e => DErr e
  end.

Definition m_scaled (c : c20_case) (s : scaled) : dres (list Q) :=
  match from_tree (d_X c) (d_tree c) with
  | DErr e => DErr e
  | DOk dl =>
      match s_mode s with
      | 0 | 1 => DOk (predict (d_X c) (dl_mul dl (s_k s)))
      | _ => match dl_div dl (s_k s) with
             | DOk dl' => DOk (predict (d_X c) dl')
             | DErr e => DErr e
             end
      end
  end.

Definition m_other (c : c20_case) : dres (list Q) :=
  match from_tree (d_X c) (d_tree2 c) with
  | DOk dl => DOk (predict (d_X c) dl)
  | DErr e => DErr e
  end.

(* expected predictions of r along a history, from the predictions p of DL.  [r += other * k]
   (the sum of two lattices) is not part of the property and only serves to expose aliasing
   between r and DL: from the first SAdd on, r itself is no longer constrained (None), only
   the original's predictions are. *)
Definition apply_sop (cur : option (list Q)) (o : sop) : option (list Q) :=
  match cur, o with
  | Some l, SMul k => Some (map (fun v => (v * k)%Q) l)
  | Some l, SDiv k => Some (map (fun v => (v / k)%Q) l)
  | _, _ => None
  end.
Fixpoint hist_expected (cur : option (list Q)) (ops : list sop) : list (option (list Q)) :=
  match ops with
  | [] => [cur]
  | o :: os => cur :: hist_expected (apply_sop cur o) os
  end.
Definition hist_start (h : hist) (p : list Q) : option (list Q) :=
  Some (if h_div h then map (fun v => (v / h_k h)%Q) p else map (fun v => (v * h_k h)%Q) p).

(* the implementation may stop a history early (an exception in +=): compare what is there *)
Definition steps_close (steps : list (dres (list Q) * dres (list Q))) (exp_r : list (option (list Q))) (p : list Q) : bool :=
  Nat.leb (length steps) (length exp_r) &&
  forallb (fun se => match snd se with
                     | Some e => dres_close (fst (fst se)) (DOk e)
                     | None => true
                     end && dres_close (snd (fst se)) (DOk p))
          (combine steps exp_r).

Definition hist_same (c : c20_case) (h : hist) : bool :=
  match m_predict c, m_other c with
  | DOk p, DOk po => steps_close (h_steps h) (hist_expected (hist_start h p) (h_ops h)) p
  | _, _ => true
  end.

Definition c20_same (c : c20_case) : bool :=
  dres_close (d_impl c) (m_predict c) &&
  dres_close (d_impl2 c) (m_predict c) &&
  dres_close (d_other c) (m_other c) &&
  forallb (hist_same c) (d_hists c) &&
  forallb (fun s => dres_close (s_pred s) (m_scaled c s) &&
                    match m_predict c with DOk p => qs_close (s_orig s) p | DErr _ => true end)
          (d_scaled c).

Definition spec_predictions (c : c20_case) : list Q :=
  map (tree_predict (d_tree c)) (d_X c).

Definition orig_kept (p : list Q) (h : hist) : bool :=
  h_fresh h &&
  forallb (fun st => match snd st with DOk o => qs_same o p | DErr _ => false end) (h_steps h).

Definition hist_spec_ok (c : c20_case) (p : list Q) (h : hist) : bool :=
  orig_kept p h &&
  steps_close (h_steps h) (hist_expected (hist_start h (spec_predictions c)) (h_ops h)) p.

(* the conversion must not touch the tree it reads: scikit-learn's own predictions are the same
   before and after, the arrays are bit-identical, and a second conversion gives the same lattice *)
Definition input_kept_ok (c : c20_case) : bool :=
  d_input_kept c &&
  match d_sklearn c, d_sklearn_after c with
  | Some a, Some b => qs_same a b
  | None, None => true
  | _, _ => false
  end.

Definition c20_spec_ok (c : c20_case) : bool :=
  (* data outside float32 (recorded finding 1): the property at face value - the lattice must
     predict what scikit-learn predicts *)
  (if d_f32 c then true
   else match d_impl c, d_sklearn c with
        | DOk p, Some sk => qs_close p sk
        | DErr _, Some _ => false
        | _, None => true
        end) &&
  input_kept_ok c &&
  if negb (fitted (d_X c) (d_tree c)) then true else
  match d_impl c with
  | DErr _ => false
  | DOk p =>
      qs_close p (spec_predictions c) &&
      match d_sklearn c with Some sk => qs_close sk (spec_predictions c) | None => true end &&
      match d_impl2 c with DOk p2 => qs_close p2 (spec_predictions c) | DErr _ => false end &&
      forallb (hist_spec_ok c p) (d_hists c) &&
      forallb (fun s =>
                 qs_same (s_orig s) p &&
                 match s_mode s, s_pred s with
                 | (0 | 1), DOk ps => qs_close ps (map (fun v => (v * s_k s)%Q) p)
                 | _, DOk ps => negb (Qeq_bool (s_k s) 0) && qs_close ps (map (fun v => (v / s_k s)%Q) p)
                 | (0 | 1), DErr _ => false
                 | _, DErr e => Qeq_bool (s_k s) 0
                 end)
              (d_scaled c)
  end.

Definition c20_check (c : c20_case) : nat :=
  let code := code_of (c20_same c) (c20_spec_ok c) in
  match code with
  | O => O
  | _ => code + (if d_f32 c then 0 else 10)     (* recorded finding 1: guard = d_f32 *)
  end.
Definition c20_show (c : c20_case) :=
  (m_predict c, spec_predictions c, fitted (d_X c) (d_tree c), map (m_scaled c) (d_scaled c)).

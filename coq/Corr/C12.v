(* Corr/C12.v — executable check for one C12 case: run the model of the order-construction
   routine and the cover relation "by definition" on the list of extents of the case and
   compare both with what the implementation returned. *)
From FCA Require Export Corr.Common Model.OrderConstruction Spec.Covers.

Record c12_case := {
  k_exts : list (list nat);        (* the concepts (extents) in listing order *)
  k_sorted : bool;                 (* is_concepts_sorted *)
  k_op : nat;   (* 0 complete_comparison   1 construct_spanning_tree   2 _get_chains(tree of the impl)
                   3 _get_chains(true parents)   4 construct_lattice_from_spanning_tree
                   5 ..._parallel   6 construct_lattice_by_spanning_tree   7 order_extents_comparison
                   8 add_concept   9 remove_concept *)
  k_jobs : nat;                    (* n_jobs (chunk size of the parallel sweep) *)
  k_chains : list (list nat);      (* op 4,5: the chains given to the routine *)
  k_arg : nat;                     (* op 9: index to remove *)
  k_new : list nat;                (* op 8: extent of the new concept *)
  k_top : option nat;              (* op 8,9: top_concept_i / bottom_concept_i as passed *)
  k_bottom : option nat;
  (* implementation outcome: two relations as lists indexed by concept (children, parents /
     tree / chains as the op requires), top and bottom index *)
  k_impl : ires ((list (list nat) * list (list nat)) * (nat * nat))
}.

Definition sets_eqb (a b : list (list nat)) : bool :=
  Nat.eqb (length a) (length b) && forallb (fun p => same_setb (fst p) (snd p)) (combine a b).
Definition lists_eqb (a b : list (list nat)) : bool := list_eqb nat_list_eqb a b.

Definition rel_of (l : list (list nat)) : imap := fun i => nth i l [].
Definition id_enum (l : list nat) : list nat := l.

(* ---- predicates of the spec side *)
Definition transpose (n : nat) (r : imap) : imap := fun y => filter (fun c => mem y (r c)) (seq 0 n).

(* spanning tree (DESIGN): the top has no parent, every other concept exactly one, a strict
   super-concept; the children dictionary is the transposed parents dictionary *)
Definition tree_spec_ok (lt : nat -> nat -> bool) (n top : nat) (sub sup : list (list nat)) : bool :=
  Nat.eqb (length sub) n && Nat.eqb (length sup) n &&
  forallb (fun c => if Nat.eqb c top then match rel_of sup c with [] => true | _ => false end
                    else match rel_of sup c with [p] => Nat.ltb p n && lt c p | _ => false end) (seq 0 n) &&
  sets_eqb sub (tabulate n (transpose n (rel_of sup))).
(* exactly the outcomes the sifting loop can produce (over all set iteration orders): the parent
   has no child placed earlier that is still above the concept *)
Definition tree_possible (lt : nat -> nat -> bool) (rank : nat -> nat) (n top : nat)
           (sub sup : list (list nat)) : bool :=
  tree_spec_ok lt n top sub sup &&
  forallb (fun c => match rel_of sup c with
                    | [p] => forallb (fun s => negb (Nat.ltb (rank s) (rank c) && lt c s)) (rel_of sub p)
                    | _ => true end) (seq 0 n).

(* chains: non-empty, start at the top, consecutive elements related by [edge], cover 0..n-1 *)
Fixpoint chain_follows (edge : nat -> nat -> bool) (ch : list nat) : bool :=
  match ch with
  | x :: ((y :: _) as ch') => edge x y && chain_follows edge ch'
  | _ => true
  end.
Definition chains_ok (edge : nat -> nat -> bool) (n top : nat) (chs : list (list nat)) : bool :=
  forallb (fun ch => match ch with t :: _ => Nat.eqb t top | [] => false end
                     && chain_follows edge ch && forallb (fun x => Nat.ltb x n) ch) chs &&
  forallb (fun i => existsb (mem i) chs) (seq 0 n).

Definition res_rel (r : res imap) (n : nat) : ires (list (list nat)) :=
  match r with Done m => IOk (tabulate n m) | OutOfFuel => IErr 99 | Fail k => IErr k end.

Definition find_top (lt : nat -> nat -> bool) (n : nat) : nat :=
  match find (is_topb lt n) (seq 0 n) with Some t => t | None => n end.
Definition find_bottom (lt : nat -> nat -> bool) (n : nat) : nat :=
  match find (is_bottomb lt n) (seq 0 n) with Some t => t | None => n end.

Definition remove_nth {A} (i : nat) (l : list A) : list A := firstn i l ++ skipn (S i) l.

Definition out4 := ((list (list nat) * list (list nat)) * (nat * nat))%type.
Definition out4_eqb (a b : out4) : bool :=
  sets_eqb (fst (fst a)) (fst (fst b)) && sets_eqb (snd (fst a)) (snd (fst b)) &&
  Nat.eqb (fst (snd a)) (fst (snd b)) && Nat.eqb (snd (snd a)) (snd (snd b)).
Definition of_relation (n : nat) (r : res relation) : ires out4 :=
  match r with
  | Done r => IOk ((tabulate n (r_sub r), tabulate n (r_sup r)), (r_top r, r_bottom r))
  | OutOfFuel => IErr 99
  | Fail k => IErr k
  end.

(* (same_as_model, spec_ok) *)
Definition c12_eval (c : c12_case) : bool * bool :=
  let cs := k_exts c in
  let n := length cs in
  let mlt := cs_lt cs in                 (* the comparison the code uses *)
  let slt := incl_lt cs in               (* strict inclusion, by definition *)
  let rank := cs_rank cs (k_sorted c) in
  let size := cs_size cs in
  let covers := tabulate n (lower_covers slt n) in
  let top := find_top slt n in
  match k_impl c with
  | IOk ((r1, r2), (t, b)) =>
      match k_op c with
      | 0 => (sets_eqb r1 (tabulate n (complete_comparison mlt n (k_sorted c))), sets_eqb r1 covers)
      | 1 => (tree_possible mlt rank n top r1 r2, tree_spec_ok slt n top r1 r2)
      | 2 => (match get_chains rank n (rel_of r2) with Done chs => lists_eqb r1 chs | _ => false end,
              chains_ok (fun x y => mem x (rel_of r2 y)) n top r1)
      | 3 => (match get_chains rank n (upper_covers slt n) with Done chs => lists_eqb r1 chs | _ => false end,
              chains_ok (fun x y => is_lower_cover slt n x y) n top r1)
      | 4 => (sets_eqb r1 (tabulate n (from_spanning_tree mlt rank n (k_chains c))), sets_eqb r1 covers)
      | 5 => (sets_eqb r1 (tabulate n (from_spanning_tree_parallel mlt rank n (k_jobs c) (k_chains c))),
              sets_eqb r1 covers)
      | 6 => (ires_eqb sets_eqb (IOk r1)
                (res_rel (by_spanning_tree mlt rank n id_enum
                            (if Nat.eqb (k_jobs c) 1 then None else Some (k_jobs c))) n),
              sets_eqb r1 covers)
      | 7 => let ok := sets_eqb r1 covers in (ok, ok)
      | 8 =>
          let cs' := cs ++ [k_new c] in
          let m := add_concept (cs_lt cs') (cs_size cs') n id_enum
                     (lower_covers slt n) (upper_covers slt n) (k_top c) (k_bottom c) in
          let slt' := incl_lt cs' in
          let spec : out4 := ((tabulate (S n) (lower_covers slt' (S n)), tabulate (S n) (upper_covers slt' (S n))),
                              (find_top slt' (S n), find_bottom slt' (S n))) in
          (ires_eqb out4_eqb (k_impl c) (of_relation (S n) m), out4_eqb ((r1, r2), (t, b)) spec)
      | _ =>
          let i := k_arg c in
          let m := remove_concept mlt size n id_enum i
                     (lower_covers slt n) (upper_covers slt n) (k_top c) (k_bottom c) in
          let cs' := remove_nth i cs in
          let slt' := incl_lt cs' in
          let spec : out4 := ((tabulate (n - 1) (lower_covers slt' (n - 1)), tabulate (n - 1) (upper_covers slt' (n - 1))),
                              (find_top slt' (n - 1), find_bottom slt' (n - 1))) in
          (ires_eqb out4_eqb (k_impl c) (of_relation (n - 1) m), out4_eqb ((r1, r2), (t, b)) spec)
      end
  | IKeyErr _ => (false, false)
  | IErr e =>
      (* the implementation raised: compare with the model's error; the spec side accepts an
         error only where the property does not promise a result (see c12_promised) *)
      match k_op c with
      | 8 => let cs' := cs ++ [k_new c] in
             (ires_eqb out4_eqb (k_impl c)
                (of_relation (S n) (add_concept (cs_lt cs') (cs_size cs') n id_enum
                     (lower_covers slt n) (upper_covers slt n) (k_top c) (k_bottom c))), false)
      | 9 => (ires_eqb out4_eqb (k_impl c)
                (of_relation (n - 1) (remove_concept mlt size n id_enum (k_arg c)
                     (lower_covers slt n) (upper_covers slt n) (k_top c) (k_bottom c))), false)
      | _ => (false, false)
      end
  end.

(* does the property promise a result on this case?  a greatest and a least concept in the
   list (and in the enlarged / reduced list), a valid order, valid chains for op 4,5 *)
Definition c12_promised (c : c12_case) : bool :=
  let cs := k_exts c in
  let n := length cs in
  let slt := incl_lt cs in
  let has_tb (cs : list (list nat)) :=
    let n := length cs in let l := incl_lt cs in
    Nat.ltb (find_top l n) n && Nat.ltb (find_bottom l n) n in
  has_tb cs &&
  (* is_concepts_sorted=True promises a topological listing: every concept after all its super-concepts *)
  (negb (k_sorted c) ||
   forallb (fun i => forallb (fun j => negb (slt i j) || Nat.ltb j i) (seq 0 n)) (seq 0 n)) &&
  match k_op c with
  | 8 => has_tb (cs ++ [k_new c]) && negb (existsb (fun e => same_setb e (k_new c)) cs)
  | 9 => has_tb (remove_nth (k_arg c) cs) && Nat.ltb (k_arg c) n
  | _ => true
  end.

Definition c12_check (c : c12_case) : nat :=
  let '(same, ok) := c12_eval c in
  code_of same (ok || negb (c12_promised c)).

Definition c12_show (c : c12_case) :=
  let cs := k_exts c in let n := length cs in
  (c12_eval c, c12_promised c, tabulate n (lower_covers (incl_lt cs) n),
   (find_top (incl_lt cs) n, find_bottom (incl_lt cs) n)).

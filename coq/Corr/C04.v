(* Corr/C04.v — executable check of one C04 case: the reduced labels of a lattice built by the
   implementation against the model (own set minus the union over children / parents) and
   against the specification (object / attribute concepts; the table read off the diagram). *)
From FCA Require Export Corr.C03.

Record c04_case := {
  l_table : table;
  l_algo : nat;
  l_err : nat;
  l_concepts : list concept;
  l_onames : list nat; l_anames : list nat;       (* name ids of objects / attributes *)
  l_new_ext_i : list (list nat); l_new_int_i : list (list nat);   (* per concept, ascending *)
  l_new_ext : list (list nat); l_new_int : list (list nat);       (* name ids, ascending *)
  l_anc : list (list nat);                                       (* ancestors(i), ascending *)
  l_desc : list (list nat);                                      (* descendants(i), ascending *)
  l_leq : list (list bool);                                      (* leq_elements(i, j) *)
  l_cle : list (list bool);                                      (* L[i] <= L[j] on the concept objects *)
  l_rebuilt : list table;       (* the tables the harness read off labels + order, through each of the
                                   four order oracles: ancestors, descendants, leq_elements, <= *)
  l_nx_dir : nat;               (* to_networkx asked after the warm-up, before any label: 0 down 1 up 2 undirected *)
  l_nx_nodes : list nat;        (* its nodes, ascending *)
  l_nx_adj : list (list nat);   (* successors (neighbours) of every index in that graph, ascending *)
  l_label_ok : bool             (* concept_lattice_label_func formats exactly these label sets *)
}.

Definition c04_same_as_model (c : c04_case) : bool :=
  let cs := l_concepts c in let n := length cs in
  let h := height (l_table c) in let w := width (l_table c) in
  Nat.eqb (l_err c) 0 &&
  lists_eqb (map (fun i => canon h (new_extent_i cs i)) (seq 0 n)) (l_new_ext_i c) &&
  lists_eqb (map (fun i => canon w (new_intent_i cs i)) (seq 0 n)) (l_new_int_i c) &&
  lists_eqb (map (fun i => sort_nat (map (fun g => nth g (l_onames c) 0) (new_extent_i cs i))) (seq 0 n))
            (l_new_ext c) &&
  lists_eqb (map (fun i => sort_nat (map (fun m => nth m (l_anames c) 0) (new_intent_i cs i))) (seq 0 n))
            (l_new_int c) &&
  lists_eqb (per_index n (ancestors_nocache cs)) (l_anc c) &&
  lists_eqb (per_index n (fun i => match l_nx_dir c with
                                   | 0 => children_nocache cs i
                                   | 1 => parents_nocache cs i
                                   | _ => children_nocache cs i ++ parents_nocache cs i
                                   end)) (l_nx_adj c) &&
  nat_list_eqb (l_nx_nodes c) (seq 0 n) &&
  lists_eqb (per_index n (descendants_nocache cs)) (l_desc c) &&
  matrix_eqb (matrix n (leq_i cs)) (l_leq c) &&
  matrix_eqb (matrix n (leq_i cs)) (l_cle c).

Definition c04_spec_ok (c : c04_case) : bool :=
  let t := l_table c in let cs := l_concepts c in
  let exts := map fst cs in let ints := map snd cs in let n := length cs in
  let h := height t in let w := width t in
  Nat.eqb (l_err c) 0 && wfb t &&
  forallb (fun cc => is_conceptb t (fst cc) (snd cc)) cs && distinctb exts &&
  completeb t cs &&
  (* each label set is the set of objects (attributes) whose object (attribute) concept the node is *)
  lists_eqb (l_new_ext_i c) (map (spec_new_extent t exts) (seq 0 n)) &&
  lists_eqb (l_new_int_i c) (map (spec_new_intent t ints) (seq 0 n)) &&
  (* every object and every attribute labels exactly one node *)
  forallb (fun g => Nat.eqb (count_homes (l_new_ext_i c) g) 1) (seq 0 h) &&
  forallb (fun m => Nat.eqb (count_homes (l_new_int_i c) m) 1) (seq 0 w) &&
  (* the name versions carry the same information *)
  lists_eqb (l_new_ext c)
            (map (fun l => sort_nat (map (fun g => nth g (l_onames c) 0) l)) (l_new_ext_i c)) &&
  lists_eqb (l_new_int c)
            (map (fun l => sort_nat (map (fun m => nth m (l_anames c) 0) l)) (l_new_int_i c)) &&
  (* g has m  iff  the node of g is the node of m or lies below it *)
  (*   ... through every order oracle the API offers *)
  table_eqb (rebuild h w (l_new_ext_i c) (l_new_int_i c) (l_anc c)) t &&
  table_eqb (rebuild_rel h w (l_new_ext_i c) (l_new_int_i c)
               (fun a b => Nat.eqb a b || mem a (nth b (l_desc c) []))) t &&
  table_eqb (rebuild_rel h w (l_new_ext_i c) (l_new_int_i c)
               (fun a b => nth b (nth a (l_leq c) []) false)) t &&
  table_eqb (rebuild_rel h w (l_new_ext_i c) (l_new_int_i c)
               (fun a b => nth b (nth a (l_cle c) []) false)) t &&
  (* the exported diagram shows every concept and exactly the cover relation *)
  nat_list_eqb (l_nx_nodes c) (seq 0 n) &&
  lists_eqb (l_nx_adj c)
            (map (fun i => match l_nx_dir c with
                           | 0 => spec_children exts i
                           | 1 => spec_parents exts i
                           | _ => canon n (spec_children exts i ++ spec_parents exts i)
                           end) (seq 0 n)) &&
  Nat.leb 4 (length (l_rebuilt c)) && forallb (fun t' => table_eqb t' t) (l_rebuilt c) &&
  l_label_ok c.

Definition c04_check (c : c04_case) : nat := code_of (c04_same_as_model c) (c04_spec_ok c).

Definition c04_show (c : c04_case) :=
  let cs := l_concepts c in let n := length cs in
  (c04_same_as_model c, c04_spec_ok c,
   map (new_extent_i cs) (seq 0 n), map (new_intent_i cs) (seq 0 n),
   rebuild (height (l_table c)) (width (l_table c)) (l_new_ext_i c) (l_new_int_i c) (l_anc c)).

(* Corr/C10.v — executable check for one C10 case: two posets over one generated order, a
   warm-up history on each, one set operation.  Compared with the model of the code and with
   the cache-free spec: the element list of the result, every query on the result, on a second
   evaluation of the same operation and on the operation with the operands exchanged, every
   query on BOTH OPERANDS afterwards, and the harness's deep comparison of the operands'
   state before/after.  For the recorded defect D15 the
   code carries 10 * (index of the guard that is false). *)
From FCA Require Export Corr.C09 Model.PosetLattice Model.PosetAlgebra.

Record c10_case := {
  a_matrix : list (list bool);
  a_els_a : list nat;
  a_els_b : list nat;
  a_cache_a : bool;
  a_cache_b : bool;
  a_warm_a : list (op nat);        (* histories with queries AND mutations *)
  a_warm_b : list (op nat);
  a_cls_a : option sl_kind;        (* None: a plain POSet; Some k: an UpperSemiLattice / LowerSemiLattice / Lattice operand *)
  a_cls_b : option sl_kind;
  a_same_leq : bool;               (* the two comparison functions are == (identical or equal objects) *)
  a_op : setop;
  a_res : out nat;                 (* implementation: elements of a ⊙ b, or the exception *)
  a_unchanged : bool;              (* implementation: operands deep-equal before and after all operations *)
  a_final : list (out nat);        (* implementation: every query on a ⊙ b, then its elements *)
  a_final2 : list (out nat);       (* the same for a ⊙ b evaluated a second time *)
  a_final_rev : list (out nat);    (* the same for b ⊙ a, evaluated after the two others *)
  a_after_a : list (out nat);      (* every query on operand a AFTER the operations, then its elements *)
  a_after_b : list (out nat)
}.

(* an operand of a semilattice class starts from the state its constructor leaves (tops /
   bottoms have been evaluated); the set operations are POSet's and ignore the class.  The
   harness gives such operands warm-ups of POSet-level queries only. *)
Definition c10_start (leq : nat -> nat -> bool) (cls : option sl_kind) (l : list nat) (uc : bool) : state nat :=
  match cls with
  | None => init nat l uc
  | Some k => match sl_make nat leq k l uc None with
              | Some sl => ps sl
              | None => init nat l uc
              end
  end.

Definition c10_operands (c : c10_case) : state nat * state nat :=
  let leq := mleq (a_matrix c) in
  (fst (run nat leq Nat.eqb (c10_start leq (a_cls_a c) (a_els_a c) (a_cache_a c)) (a_warm_a c)),
   fst (run nat leq Nat.eqb (c10_start leq (a_cls_b c) (a_els_b c) (a_cache_b c)) (a_warm_b c))).

Definition all_answers (leq : nat -> nat -> bool) (s : state nat) : list (out nat) :=
  let '(s', fin) := run nat leq Nat.eqb s (final_queries (length (els s))) in fin ++ [OEls (els s')].
Definition spec_answers (leq : nat -> nat -> bool) (l : list nat) (uc : bool) : list (out nat) :=
  map (spec_query nat leq Nat.eqb l uc) (final_queries (length l)) ++ [OEls l].

Definition c10_out := (out nat * bool * list (out nat) * list (out nat) * list (out nat) *
                       list (out nat) * list (out nat))%type.

(* the operations do not touch the operands (the model is a function of their states), so the
   second a ⊙ b equals the first and the operands answer afterwards as they did before *)
Definition c10_model (c : c10_case) : c10_out :=
  let leq := mleq (a_matrix c) in
  let '(sa, sb) := c10_operands c in
  if a_same_leq c then
    let r := combine nat Nat.eqb (a_op c) sa sb in
    let fr := all_answers leq r in
    (OEls (els r), true, fr, fr, all_answers leq (combine nat Nat.eqb (a_op c) sb sa),
     all_answers leq sa, all_answers leq sb)
  else (* the assert on the comparison functions: AssertionError, nothing touched *)
    (OErr EAssert, true, [OErr EAssert], [OErr EAssert], [OErr EAssert],
     all_answers leq sa, all_answers leq sb).

Definition c10_spec (c : c10_case) : c10_out :=
  let leq := mleq (a_matrix c) in
  let ea := fst (spec_run nat leq Nat.eqb (a_els_a c) (a_cache_a c) (a_warm_a c)) in
  let eb := fst (spec_run nat leq Nat.eqb (a_els_b c) (a_cache_b c) (a_warm_b c)) in
  let comb := els_comb nat Nat.eqb (a_op c) ea eb in
  let fr := spec_answers leq comb (a_cache_a c) in
  if a_same_leq c then
    (OEls comb, true, fr, fr,
     spec_answers leq (els_comb nat Nat.eqb (a_op c) eb ea) (a_cache_b c),
     spec_answers leq ea (a_cache_a c), spec_answers leq eb (a_cache_b c))
  else (* posets over different comparisons are outside the algebra: the call must be refused *)
    (OErr EAssert, true, [OErr EAssert], [OErr EAssert], [OErr EAssert],
     spec_answers leq ea (a_cache_a c), spec_answers leq eb (a_cache_b c)).

Definition c10_same (c : c10_case) (r : c10_out) : bool :=
  let '(a, u, f, f2, fr, aa, ab) := r in
  out_eqb (a_res c) a && Bool.eqb (a_unchanged c) u && outs_eqb (a_final c) f &&
  outs_eqb (a_final2 c) f2 && outs_eqb (a_final_rev c) fr &&
  outs_eqb (a_after_a c) aa && outs_eqb (a_after_b c) ab.

(* the guard of a ⊙ b, else that of b ⊙ a (same operator, hence the same finding index) *)
Definition c10_guard (c : c10_case) : nat :=
  let '(sa, sb) := c10_operands c in
  match guard_index nat Nat.eqb (a_op c) sa sb with
  | 0 => guard_index nat Nat.eqb (a_op c) sb sa
  | k => k
  end.

Definition c10_check (c : c10_case) : nat :=
  match code_of (c10_same c (c10_model c)) (c10_same c (c10_spec c)) with
  | 0 => 0
  | k => k + 10 * c10_guard c
  end.

Definition c10_show (c : c10_case) := (c10_model c, c10_spec c, c10_guard c).

(* Corr/C10.v — executable check for one C10 case: two posets over one generated order, a
   warm-up history on each, one set operation.  Compared with the model of the code and with
   the cache-free spec: the element list of the result, every query on the result, and the
   harness's deep comparison of the operands before/after.  For the recorded defect D15 the
   code carries 10 * (index of the guard that is false). *)
From FCA Require Export Corr.C09 Model.PosetAlgebra.

Record c10_case := {
  a_matrix : list (list bool);
  a_els_a : list nat;
  a_els_b : list nat;
  a_cache_a : bool;
  a_cache_b : bool;
  a_warm_a : list (op nat);
  a_warm_b : list (op nat);
  a_op : setop;
  a_res : out nat;                 (* implementation: elements of the result, or the exception *)
  a_unchanged : bool;              (* implementation: operands deep-equal before and after *)
  a_final : list (out nat)         (* implementation: every query on the result, then its elements *)
}.

Definition c10_operands (c : c10_case) : state nat * state nat :=
  let leq := mleq (a_matrix c) in
  (fst (run nat leq Nat.eqb (init nat (a_els_a c) (a_cache_a c)) (a_warm_a c)),
   fst (run nat leq Nat.eqb (init nat (a_els_b c) (a_cache_b c)) (a_warm_b c))).

Definition c10_model (c : c10_case) : out nat * bool * list (out nat) :=
  let leq := mleq (a_matrix c) in
  let '(sa, sb) := c10_operands c in
  let r := combine nat Nat.eqb (a_op c) sa sb in
  let '(r', fin) := run nat leq Nat.eqb r (final_queries (length (els r))) in
  (OEls (els r), true, fin ++ [OEls (els r')]).

Definition c10_spec (c : c10_case) : out nat * bool * list (out nat) :=
  let leq := mleq (a_matrix c) in
  let ea := fst (spec_run nat leq Nat.eqb (a_els_a c) (a_cache_a c) (a_warm_a c)) in
  let eb := fst (spec_run nat leq Nat.eqb (a_els_b c) (a_cache_b c) (a_warm_b c)) in
  let comb := els_comb nat Nat.eqb (a_op c) ea eb in
  (OEls comb, true,
   map (spec_query nat leq Nat.eqb comb (a_cache_a c)) (final_queries (length comb)) ++ [OEls comb]).

Definition c10_same (c : c10_case) (r : out nat * bool * list (out nat)) : bool :=
  let '(a, u, f) := r in
  out_eqb (a_res c) a && Bool.eqb (a_unchanged c) u && outs_eqb (a_final c) f.

Definition c10_guard (c : c10_case) : nat :=
  let '(sa, sb) := c10_operands c in guard_index nat Nat.eqb (a_op c) sa sb.

Definition c10_check (c : c10_case) : nat :=
  match code_of (c10_same c (c10_model c)) (c10_same c (c10_spec c)) with
  | 0 => 0
  | k => k + 10 * c10_guard c
  end.

Definition c10_show (c : c10_case) := (c10_model c, c10_spec c, c10_guard c).

(* Corr/C19.v — executable check of one C19 case.
   kind 0 (layout): a poset given by its comparison matrix; the implementation's calc_levels,
     fcart_layout(c, dpth) and multipartite_layout outputs.
   kind 1 (mover): a direction, a position dictionary, a history of operations; the
     implementation's exception code and [pos] after loading and after every operation.
   "same as model": outputs equal the Q model's up to 1e-9*max(1,|x|) (levels, exception codes
   exactly).  "spec ok": the predicates of Spec/C19_LayoutSpec.v evaluated exactly on the
   implementation's own numbers (never on the model's). *)
From Coq Require Import ZArith QArith Qabs.
From FCA Require Export Corr.Common Model.C19_Mover Spec.C19_LayoutSpec.
Local Open Scope nat_scope.

(* one use of a (reused) visualizer object: init_mover_per_poset(poset, layout) for both layouts,
   positions read back from visualizer.mover.pos *)
Record viz_step := {
  vs_n : nat;
  vs_rel : list (list bool);
  vs_c : Q;
  vs_dpth : Z;
  vs_levels : lres (list Z);
  vs_ldict : list (list nat);
  vs_fcart : lres (list (Q * Q));
  vs_multi : lres (list (Q * Q))
}.

Record c19_case := {
  k_kind : nat;
  (* layout *)
  k_n : nat;
  k_rel : list (list bool);
  k_c : Q;
  k_dpth : Z;
  k_levels : lres (list Z);            (* calc_levels(poset)[0] *)
  k_ldict : list (list nat);           (* calc_levels(poset)[1] as a list *)
  k_fcart : lres (list pt);
  k_multi : lres (list pt);
  (* mover *)
  k_dir : bool;
  k_pos0 : list pt;
  k_ops : list hop;
  k_trace : list (nat * list pt);      (* first entry: after loading *)
  (* the documented attributes levels, peers_order, pos_levels, pos_peers at the same moments *)
  k_ints : list (list nat * list nat * list Q * list (list Q));
  (* kind 2: a sequence of posets shown by ONE visualizer object *)
  k_steps : list viz_step
}.

Definition tol : Q := 1 # 1000000000.
Definition qmax1 (a : Q) : Q := if Qle_bool 1 a then a else 1%Q.
Definition close (impl model : Q) : bool :=
  Qle_bool (Qabs (impl - model)) (tol * qmax1 (Qabs model)).
Definition pclose (a b : pt) : bool := close (fst a) (fst b) && close (snd a) (snd b).
Definition pts_close (a b : list pt) : bool := list_eqb pclose a b.

Definition z_list_eqb := list_eqb Z.eqb.

(* ------------------------------------------------------------------ layouts *)
Section LayoutCase.
Variable cs : c19_case.
Let n := k_n cs.
Let leq := rel_leq (k_rel cs).
Let par := parents_of n leq.
Let chi := children_of n leq.
Let tps := tops_of n leq.

Definition m_levels_res := calc_levels n par chi tps.
Definition m_fcart_res := fcart_layout n par chi tps (k_c cs) (k_dpth cs).

(* two elements of one level whose priorities (nearly) tie although they hang under different
   parents: floating-point rounding may order them either way, the x coordinates of the model
   are then not comparable (the spec predicates still are) *)
Definition near (a b : Q) : bool := Qle_bool (Qabs (a - b)) tol.
Definition has_fragile (prs : list (Q * nat)) : bool :=
  existsb (fun a => existsb (fun b =>
     negb (Nat.eqb (snd a) (snd b)) && near (fst a) (fst b)
     && negb (nat_list_eqb (par (snd a)) (par (snd b)))) prs) prs.
Definition fragile (levels : list Z) (ld : list (list nat)) : bool :=
  snd (fold_left (fun st k =>
         let ids := fst st in
         let es := nth k ld [] in
         if Nat.eqb k 0 then (assign_ids ids es, snd st)
         else let prs := map (fun e => (priority par (k_c cs) (k_dpth cs) levels ld ids e, e)) es in
              (assign_ids ids (map snd (isort ple prs)), snd st || has_fragile prs))
       (seq 0 (length ld)) (repeat O n, false)).

Definition layout_same : bool :=
  match m_levels_res, k_levels cs with
  | LErr e, LErr e' => Nat.eqb e e'
  | LOk (lv, ld), LOk lv' =>
      z_list_eqb lv lv' && list_eqb nat_list_eqb ld (k_ldict cs) &&
      match m_fcart_res, k_fcart cs with
      | LOk ps, LOk ps' =>
          if fragile lv ld
          then Nat.eqb (length ps) (length ps') &&
               forallb (fun i => close (snd (pt_at ps' i)) (snd (pt_at ps i))) (seq 0 n)
          else pts_close ps' ps
      | LErr e, LErr e' => Nat.eqb e e'
      | _, _ => false
      end
  | _, _ => false
  end.

Definition spec_level (i : nat) : nat := height n leq i.
Definition layout_spec_ok : bool :=
  match k_levels cs, k_fcart cs, k_multi cs with
  | LOk lv, LOk fc, LOk mu =>
      z_list_eqb lv (map (fun i => Z.of_nat (spec_level i)) (seq 0 n)) &&
      layout_ok n leq fc &&
      layout_ok n leq mu && levels_as_rows n spec_level mu
  | _, _, _ => false
  end.
End LayoutCase.

(* ------------------------------------------------------------------ mover histories *)
Definition entry_close (a b : nat * list pt) : bool :=
  Nat.eqb (fst a) (fst b) && pts_close (snd a) (snd b).

Definition ints_of (s : mstate) := (m_levels s, m_order s, m_plev s, m_ppeers s).
Definition ints_close (a b : list nat * list nat * list Q * list (list Q)) : bool :=
  match a, b with
  | (l1, o1, p1, pp1), (l2, o2, p2, pp2) =>
      nat_list_eqb l1 l2 && nat_list_eqb o1 o2 && list_eqb close p1 p2 && list_eqb (list_eqb close) pp1 pp2
  end.

Definition mover_same (cs : c19_case) : bool :=
  let s0 := load (k_dir cs) (k_pos0 cs) in
  list_eqb entry_close (k_trace cs) ((O, pos s0) :: htrace s0 (k_ops cs)) &&
  list_eqb ints_close (k_ints cs) (map ints_of (s0 :: hstates s0 (k_ops cs))).

Definition overlap (v : bool) (ps : list pt) (i : nat) (x : Q) : bool :=
  existsb (fun j => negb (Nat.eqb j i) && same_level v ps i j && Qeq_bool (pc v (pt_at ps j)) x)
          (seq 0 (length ps)).

(* one step of the history judged on the pictures before and after only *)
Definition step_ok (v : bool) (ps : list pt) (o : mop) (e : nat) (ps' : list pt) : bool :=
  match o with
  | Swap a b =>
      if same_level v ps a b
      then Nat.eqb e 0 && pts_eq ps' (swap_spec ps a b)
      else Nat.eqb e 2 && pts_eq ps' ps
  | Shift i k =>
      Nat.eqb e 0 && pts_eq ps' (shift_spec v ps i k)
  | Jitter i dx =>
      if Nat.eqb e 0
      then close (pc v (pt_at ps' i)) (pc v (pt_at ps i) + dx)
           && levels_kept v ps ps' && other_levels_kept v ps ps' i
      else Nat.eqb e 6 && pts_eq ps' ps && overlap v ps i (pc v (pt_at ps i) + dx)
  | Place i x =>
      if Nat.eqb e 0
      then (negb v || close (fst (pt_at ps' i)) x)
           && levels_kept v ps ps' && other_levels_kept v ps ps' i
      else Nat.eqb e 6 && pts_eq ps' ps && (negb v || overlap v ps i x)
  | SetDir v' => Nat.eqb e 0 && pts_eq ps' (turn_spec v v' ps)
  end
  && match o with
     | SetDir _ => true
     | Swap a _ | Shift a _ | Jitter a _ | Place a _ =>
         levels_kept v ps ps' && other_levels_kept v ps ps' a
     end.

(* the posx / posy setters, judged on pictures.  Along the peer axis the nodes get exactly the
   assigned coordinates and keep their level coordinates.  Along the level axis the peer
   coordinates are kept and every node gets the assigned level coordinate - in the horizontal
   orientation the unchanged code shows the NEGATED value when x is read back (the posx setter
   stores x where the getter expects -x); both readings are accepted here, uniformly for all nodes,
   since the property does not speak about these setters. *)
Definition set_axis_ok (v : bool) (x_axis : bool) (ps : list pt) (l : list Q) (ps' : list pt) : bool :=
  let n := length ps in
  Nat.eqb (length ps') n &&
  let coord := fun (p : pt) => if x_axis then fst p else snd p in
  let other := fun (p : pt) => if x_axis then snd p else fst p in
  forallb (fun i => Qeq_bool (other (pt_at ps' i)) (other (pt_at ps i))) (seq 0 n) &&
  (forallb (fun i => Qeq_bool (coord (pt_at ps' i)) (nth i l 0%Q)) (seq 0 n) ||
   (negb v && x_axis && forallb (fun i => Qeq_bool (coord (pt_at ps' i)) (- nth i l 0%Q)) (seq 0 n))).

Definition hstep_ok (v : bool) (ps : list pt) (h : hop) (e : nat) (ps' : list pt) : bool :=
  match h with
  | HOp o => step_ok v ps o e ps'
  | HSetX l => Nat.eqb e 0 && set_axis_ok v true ps l ps'
  | HSetY l => Nat.eqb e 0 && set_axis_ok v false ps l ps'
  end.

Fixpoint history_ok (v : bool) (ps : list pt) (ops : list hop) (tr : list (nat * list pt)) : bool :=
  match ops, tr with
  | [], [] => true
  | o :: os, (e, ps') :: tr' =>
      hstep_ok v ps o e ps' &&
      history_ok (match o with HOp (SetDir v') => v' | _ => v end) ps' os tr'
  | _, _ => false
  end.

Definition mover_spec_ok (cs : c19_case) : bool :=
  match k_trace cs with
  | (e0, p0) :: tr =>
      Nat.eqb e0 0 && pts_eq p0 (k_pos0 cs)                  (* load; read back *)
      && history_ok (k_dir cs) p0 (k_ops cs) tr
  | [] => false
  end.

Definition step_case (st : viz_step) : c19_case :=
  Build_c19_case 0 (vs_n st) (vs_rel st) (vs_c st) (vs_dpth st) (vs_levels st) (vs_ldict st)
                 (vs_fcart st) (vs_multi st) true [] [] [] [] [].

Definition c19_check (cs : c19_case) : nat :=
  match k_kind cs with
  | O => code_of (layout_same cs) (layout_spec_ok cs)
  | 2 => code_of (forallb (fun st => layout_same (step_case st)) (k_steps cs))
                 (forallb (fun st => layout_spec_ok (step_case st)) (k_steps cs))
  | _ => code_of (mover_same cs) (mover_spec_ok cs)
  end.

Definition c19_show (cs : c19_case) :=
  match k_kind cs with
  | O => (m_levels_res cs, m_fcart_res cs,
          map (fun i => spec_level cs i) (seq 0 (k_n cs)), @nil (nat * list pt))
  | 2 => (LErr 0, LErr 0, map (fun st => if layout_same (step_case st) then 1 else 0) (k_steps cs) ++
                            map (fun st => if layout_spec_ok (step_case st) then 1 else 0) (k_steps cs),
          @nil (nat * list pt))
  | _ => (LErr 0, LErr 0, [],
          let s0 := load (k_dir cs) (k_pos0 cs) in (O, pos s0) :: htrace s0 (k_ops cs))
  end.

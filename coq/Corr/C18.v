(* Corr/C18.v — executable check for one C18 case: a formal search (by index or by name), a
   many-valued search, or a generators_by_intent_difference call. *)
From FCA Require Export Corr.Common Model.C18_MinGen Spec.C18_MinGenSpec.
From Coq Require Import ZArith.
Local Open Scope nat_scope.

Inductive c18_input :=
| InFormal (b : backend) (t : table) (named : bool) (onames anames : list nat)
           (intent : list nat) (base_gen : option (list nat)) (base_objs : option (list nat))
| InMV (K : mvctx) (intent : ddict) (base_gen : option ddict) (base : option (list nat))
       (ps_to_iterate : option (list nat)) (pstart : nat)
| InMVNamed (K : mvctx) (snames onames : list nat) (intent : ddict) (base_gen : option ddict)
            (base : option (list nat)) (ps_to_iterate : option (list nat)) (pstart : nat)
| InDiff (K : mvctx) (new old : ddict).

(* what the implementation returned; OErr 10 = no answer within the alarm *)
Inductive c18_out := OGens (l : list (list nat)) | OMV (l : list ddict) | OErr (kind : nat).

Record c18_case := { c_in : c18_input; c_out : c18_out }.

Definition MV_FUEL := 3.

Definition lists_set_eqb (a b : list (list nat)) : bool :=
  forallb (fun x => existsb (nat_list_eqb x) b) a && forallb (fun x => existsb (nat_list_eqb x) a) b &&
  Nat.eqb (length a) (length b).
Definition dds_set_eqb (a b : list ddict) : bool :=
  forallb (fun x => existsb (dd_eqb x) b) a && forallb (fun x => existsb (dd_eqb x) a) b &&
  Nat.eqb (length a) (length b).
Fixpoint dds_eqb (a b : list ddict) : bool :=
  match a, b with
  | [], [] => true
  | x :: a', y :: b' => dd_eqb x y && dds_eqb a' b'
  | _, _ => false
  end.

Definition gens_same (m : list (list nat)) (o : c18_out) : bool :=
  match o with
  | OGens l' => lists_set_eqb m l'
  | _ => false
  end.
(* a dict is compared by content: both sides sorted by key *)
Fixpoint dd_insert (x : nat * descr) (l : ddict) : ddict :=
  match l with
  | [] => [x]
  | y :: l' => if Nat.leb (fst x) (fst y) then x :: l else y :: dd_insert x l'
  end.
Definition dd_sort (d : ddict) : ddict := fold_right dd_insert [] d.

Definition mvres_same (m : mvres) (o : c18_out) : bool :=
  match m, o with
  | MOk l, OMV l' => dds_set_eqb (map dd_sort l) (map dd_sort l')
  | MErr k, OErr k' => Nat.eqb k k'
  | MOutOfFuel, OErr 10 => true
  | _, _ => false
  end.

Definition c18_model_same (c : c18_case) : bool :=
  match c_in c with
  | InFormal b t false _ _ intent bg bo => gens_same (get_minimal_generators_i b t intent bg bo) (c_out c)
  | InFormal b t true on an intent bg bo =>
      gens_same (get_minimal_generators_named b t on an intent bg bo) (c_out c)
  | InMV K intent bg base pti pstart =>
      mvres_same (mv_get_minimal_generators MV_FUEL K intent bg base pti pstart) (c_out c)
  | InMVNamed K sn on intent bg base pti pstart =>
      mvres_same (mv_get_minimal_generators_named MV_FUEL K sn on intent bg base pti pstart) (c_out c)
  | InDiff K new old =>
      match generators_by_intent_difference K new old, c_out c with
      | ROk l, OMV l' => dds_eqb l l'
      | RErr k, OErr k' => Nat.eqb k k'
      | _, _ => false
      end
  end.

Fixpoint first_pos_from (k : nat) (names : list nat) (x : nat) : option nat :=
  match names with
  | [] => None
  | y :: ys => if Nat.eqb x y then Some k else first_pos_from (S k) ys x
  end.
Definition first_pos := first_pos_from 0.

Definition c18_spec_ok (c : c18_case) : bool :=
  match c_in c with
  | InFormal b t false _ _ intent bg bo =>
      match c_out c with
      (* a returned listing may repeat the attributes the base generator repeats: compared as sets of sets *)
      | OGens l => lists_set_eqb (map (canon_set (width t)) l)
                                 (mingens_spec t intent (default [] bg) (default (all_objs t) bo))
      | _ => false
      end
  | InFormal b t true on an intent bg bo =>
      match c_out c with
      | OGens l =>
          let pos names sel := filter (fun i => mem (nth i names 0) sel) (seq 0 (length names)) in
          lists_set_eqb l (map (map (fun m => nth m an 0))
                               (mingens_spec t (pos an intent) (pos an (default [] bg))
                                             (match bo with None => all_objs t | Some l => pos on l end)))
      | _ => false
      end
  | InMV K intent bg base pti pstart =>
      match c_out c with
      | OMV l => mv_soundb K intent (default (seq 0 (mv_n K)) base) l
      | OErr _ => true            (* nothing returned: the statement is about returned generators *)
      | _ => false
      end
  | InMVNamed K sn on intent bg base pti pstart =>
      (* names -> structure index by the FIRST structure carrying the name (the spec's own look-up) *)
      let ps_of nm := match first_pos sn nm with Some i => i | None => length sn end in
      let to_idx (d : ddict) := map (fun kv => (ps_of (fst kv), snd kv)) d in
      let bo := match base with
                | Some l => filter (fun g => mem (nth g on 0) l) (seq 0 (mv_n K))
                | None => seq 0 (mv_n K)
                end in
      match c_out c with
      | OMV l => mv_soundb K (to_idx intent) bo (map to_idx l)
      | OErr _ => true
      | _ => false
      end
  | InDiff K new old =>
      match c_out c with
      | OMV l =>
          (* one column per description; among the objects of the old intent it selects exactly
             those inside the new interval of that column *)
          forallb (fun d => match d with
                            | [(ps, g)] =>
                                forallb (fun o => if satisfies K old o
                                                  then Bool.eqb (satisfies1 K ps g o)
                                                                (satisfies1 K ps (dd_get new ps) o)
                                                  else true) (seq 0 (mv_n K))
                            | _ => false
                            end) l
      | OErr _ => true
      | _ => false
      end
  end.

Definition c18_check (c : c18_case) : nat :=
  code_of (c18_model_same c) (c18_spec_ok c).

Definition c18_show (c : c18_case) :=
  match c_in c with
  | InFormal b t false _ _ intent bg bo =>
      (Some (get_minimal_generators_i b t intent bg bo,
             mingens_spec t intent (default [] bg) (default (all_objs t) bo)), None, None)
  | InFormal b t true on an intent bg bo =>
      (Some (get_minimal_generators_named b t on an intent bg bo, []), None, None)
  | InMV K intent bg base pti pstart =>
      (None, Some (mv_get_minimal_generators MV_FUEL K intent bg base pti pstart,
                   mv_ext_spec K intent (default (seq 0 (mv_n K)) base)), None)
  | InMVNamed K sn on intent bg base pti pstart =>
      (None, Some (mv_get_minimal_generators_named MV_FUEL K sn on intent bg base pti pstart, []), None)
  | InDiff K new old => (None, None, Some (generators_by_intent_difference K new old))
  end.

(* Corr/C18.v — executable check for one C18 case: a formal search (by index or by name), a
   many-valued search, or a generators_by_intent_difference call. *)
From FCA Require Export Corr.Common Model.C18_MinGen Spec.C18_MinGenSpec.
From Coq Require Import ZArith.
Local Open Scope nat_scope.

Inductive c18_input :=
| InFormal (b : backend) (t : table) (named : bool) (onames anames : list nat)
           (intent : list nat) (base_gen : option (list nat)) (base_objs : option (list nat))
| InMV (K : mvctx) (intent : ddict) (base_gen : option ddict) (base : option (list nat))
       (ps_to_iterate : option (list nat)) (pstart : nat)
| InDiff (K : mvctx) (new old : ddict).

(* what the implementation returned; OErr 10 = no answer within the alarm *)
Inductive c18_out := OGens (l : list (list nat)) | OMV (l : list ddict) | OErr (kind : nat).

Record c18_case := { c_in : c18_input; c_out : c18_out }.

Definition MV_FUEL := 3.

Definition lists_set_eqb (a b : list (list nat)) : bool :=
  forallb (fun x => existsb (nat_list_eqb x) b) a && forallb (fun x => existsb (nat_list_eqb x) a) b &&
  Nat.eqb (length a) (length b).
Definition dds_set_eqb (a b : list ddict) : bool :=
  forallb (fun x => existsb (dd_eqb x) b) a && forallb (fun x => existsb (dd_eqb x) a) b &&
  Nat.eqb (length a) (length b).
Fixpoint dds_eqb (a b : list ddict) : bool :=
  match a, b with
  | [], [] => true
  | x :: a', y :: b' => dd_eqb x y && dds_eqb a' b'
  | _, _ => false
  end.

Definition gens_same (m : list (list nat)) (o : c18_out) : bool :=
  match o with
  | OGens l' => lists_set_eqb m l'
  | _ => false
  end.
Definition mvres_same (m : mvres) (o : c18_out) : bool :=
  match m, o with
  | MOk l, OMV l' => dds_set_eqb l l'
  | MErr k, OErr k' => Nat.eqb k k'
  | MOutOfFuel, OErr 10 => true
  | _, _ => false
  end.

Definition c18_model_same (c : c18_case) : bool :=
  match c_in c with
  | InFormal b t false _ _ intent bg bo => gens_same (get_minimal_generators_i b t intent bg bo) (c_out c)
  | InFormal b t true on an intent bg bo =>
      gens_same (get_minimal_generators_named b t on an intent bg bo) (c_out c)
  | InMV K intent bg base pti pstart =>
      mvres_same (mv_get_minimal_generators MV_FUEL K intent bg base pti pstart) (c_out c)
  | InDiff K new old =>
      match generators_by_intent_difference K new old, c_out c with
      | ROk l, OMV l' => dds_eqb l l'
      | RErr k, OErr k' => Nat.eqb k k'
      | _, _ => false
      end
  end.

Definition c18_spec_ok (c : c18_case) : bool :=
  match c_in c with
  | InFormal b t false _ _ intent bg bo =>
      match c_out c with
      | OGens l => lists_set_eqb l (mingens_spec t intent (default [] bg) (default (all_objs t) bo))
      | _ => false
      end
  | InFormal b t true on an intent bg bo =>
      match c_out c with
      | OGens l =>
          let pos names sel := filter (fun i => mem (nth i names 0) sel) (seq 0 (length names)) in
          lists_set_eqb l (map (map (fun m => nth m an 0))
                               (mingens_spec t (pos an intent) (pos an (default [] bg))
                                             (match bo with None => all_objs t | Some l => pos on l end)))
      | _ => false
      end
  | InMV K intent bg base pti pstart =>
      match c_out c with
      | OMV l => mv_soundb K intent (default (seq 0 (mv_n K)) base) l
      | OErr _ => true            (* nothing returned: the statement is about returned generators *)
      | _ => false
      end
  | InDiff K new old =>
      match c_out c with
      | OMV l =>
          (* one column per description; among the objects of the old intent it selects exactly
             those inside the new interval of that column *)
          forallb (fun d => match d with
                            | [(ps, g)] =>
                                forallb (fun o => if satisfies K old o
                                                  then Bool.eqb (satisfies1 K ps g o)
                                                                (satisfies1 K ps (dd_get new ps) o)
                                                  else true) (seq 0 (mv_n K))
                            | _ => false
                            end) l
      | OErr _ => true
      | _ => false
      end
  end.

Definition c18_check (c : c18_case) : nat :=
  code_of (c18_model_same c) (c18_spec_ok c).

Definition c18_show (c : c18_case) :=
  match c_in c with
  | InFormal b t false _ _ intent bg bo =>
      (Some (get_minimal_generators_i b t intent bg bo,
             mingens_spec t intent (default [] bg) (default (all_objs t) bo)), None, None)
  | InFormal b t true on an intent bg bo =>
      (Some (get_minimal_generators_named b t on an intent bg bo, []), None, None)
  | InMV K intent bg base pti pstart =>
      (None, Some (mv_get_minimal_generators MV_FUEL K intent bg base pti pstart,
                   mv_ext_spec K intent (default (seq 0 (mv_n K)) base)), None)
  | InDiff K new old => (None, None, Some (generators_by_intent_difference K new old))
  end.

(* Corr/C17.v — executable check for one C17 case: run the model of trace_context and the
   tracing "by definition" and compare both with what the implementation returned.
   The lattice is described by the extents of its concepts (they define its order) and their
   intents; the model walks the TRUE cover relation of that list (Spec/Covers.v), so that a
   stale or wrong children_dict of the implementation shows up as a wrong trace. *)
From FCA Require Export Corr.Common Model.TraceContext Spec.Trace.

(* the traced context with the intents of the lattice's concepts *)
Inductive tctx :=
| TFormal (b : backend) (intents : list (list nat)) (t : table)   (* b: back-end of the traced context *)
| TMV (intents : list mv_intent) (n_objects : nat) (cols : list column).

Record c17_case := {
  q_exts : list (list nat);      (* extents of the lattice's concepts (they define its order) *)
  q_ctx : tctx;                  (* intents of the concepts + the traced context *)
  q_children : list (list nat);  (* the lattice's children_dict as the implementation reports it *)
  q_top : nat;                   (* the lattice's top index *)
  q_mono : bool;                 (* is_monotone *)
  q_names : list nat;            (* object names (ids) of the traced context *)
  q_byindex : bool;              (* use_object_indices *)
  (* the two returned dictionaries as (key, members) lists: bottom concepts, traced concepts *)
  q_impl : ires (list (nat * list nat) * list (nat * list nat))
}.

Definition q_n (c : c17_case) : nat := length (q_exts c).
Definition q_lt (c : c17_case) : nat -> nat -> bool := incl_lt (q_exts c).
Definition q_h (c : c17_case) : nat :=
  match q_ctx c with TFormal _ _ t => height t | TMV _ h _ => h end.

(* the greatest concept of the list (the implementation's self.top is only a fallback) *)
Definition q_true_top (c : c17_case) : nat :=
  match find (is_topb (q_lt c) (q_n c)) (seq 0 (q_n c)) with Some t => t | None => q_top c end.

Definition q_lattice (c : c17_case) : lattice :=
  {| lt_len := q_n c; lt_children := lower_covers (q_lt c) (q_n c);
     lt_top := q_true_top c; lt_support := fun i => length (nth i (q_exts c) []);
     lt_monotone := q_mono c |}.

Definition q_mvctx (h : nat) (cols : list column) : mvctx := mkMV h cols [] [] [].

Definition q_ext (c : c17_case) : nat -> list nat :=
  match q_ctx c with
  | TFormal b intents t => formal_ext b intents t
  | TMV intents h cols => mv_ext (q_mvctx h cols) intents
  end.
Definition q_sat (c : c17_case) : nat -> nat -> bool :=
  match q_ctx c with
  | TFormal _ intents t => sat_formal intents t
  | TMV intents h cols => sat_mv intents cols
  end.

Fixpoint assoc (k : nat) (l : list (nat * list nat)) : option (list nat) :=
  match l with
  | [] => None
  | (k', v) :: l' => if Nat.eqb k k' then Some v else assoc k l'
  end.

(* a dictionary equals the map [f] re-keyed by [key] on the objects 0..h-1 *)
Definition dict_is (d : list (nat * list nat)) (h : nat) (key : nat -> nat) (f : nat -> list nat) : bool :=
  Nat.eqb (length d) h &&
  forallb (fun g => match assoc (key g) d with Some v => same_setb v (f g) | None => false end) (seq 0 h).

Definition id_enum17 (l : list nat) : list nat := l.

Definition c17_key (c : c17_case) : nat -> nat :=
  if q_byindex c then (fun g => g) else (fun g => nth g (q_names c) 0).

Fixpoint nodupb (l : list nat) : bool :=
  match l with [] => true | x :: l' => negb (mem x l') && nodupb l' end.

Definition desc_okb (col : column) (d : desc) : bool := desc_matches col d.

(* the hypotheses of the theorems, decided on the case *)
Definition c17_promised (c : c17_case) : bool :=
  let n := q_n c in
  let lt := q_lt c in
  strict_orderb lt n && is_topb lt n (q_true_top c) &&
  Nat.eqb (length (q_names c)) (q_h c) && nodupb (q_names c) &&
  match q_ctx c with
  | TFormal _ intents t =>
      Nat.eqb (length intents) n && antitone_intentsb lt intents &&
      forallb (in_rangeb (width t)) intents && wfb t
  | TMV intents h cols =>
      Nat.eqb (length intents) n && antitone_mvb lt intents &&
      forallb (fun col => Nat.eqb (col_len col) h) cols &&
      forallb (fun ds => forallb (fun id => Nat.ltb (fst id) (length cols) &&
                                           desc_matches (nth (fst id) cols (CAttr [])) (snd id)) ds) intents
  end.

(* does the implementation report the true cover relation as children_dict?  (informative: a
   difference alone is C03's subject; here it matters through the trace) *)
Definition c17_children_true (c : c17_case) : bool :=
  Nat.eqb (length (q_children c)) (q_n c) &&
  forallb (fun i => same_setb (nth i (q_children c) []) (lower_covers (q_lt c) (q_n c) i)) (seq 0 (q_n c)).

Definition c17_eval (c : c17_case) : bool * bool :=
  let h := q_h c in
  let key := c17_key c in
  let s := trace_final (q_ext c) (q_lattice c) id_enum17 in
  match q_impl c with
  | IOk (bot, tr) =>
      (negb (q_mono c) && dict_is bot h key (ts_bottom s) && dict_is tr h key (ts_traced s),
       negb (q_mono c) && dict_is bot h key (bottoms_gen (q_lt c) (q_sat c) (q_n c))
                       && dict_is tr h key (traced_gen (q_sat c) (q_n c)))
  | IErr e => (q_mono c && Nat.eqb e 9, q_mono c && Nat.eqb e 9)
  | IKeyErr _ => (false, false)
  end.

Definition c17_check (c : c17_case) : nat :=
  let '(same, ok) := c17_eval c in
  code_of same (ok || negb (q_mono c || c17_promised c)).

Definition c17_show (c : c17_case) :=
  let s := trace_final (q_ext c) (q_lattice c) id_enum17 in
  let h := q_h c in
  (c17_eval c, (c17_promised c, c17_children_true c),
   (tabulate h (ts_bottom s), tabulate h (ts_traced s)),
   (tabulate h (bottoms_gen (q_lt c) (q_sat c) (q_n c)), tabulate h (traced_gen (q_sat c) (q_n c)))).

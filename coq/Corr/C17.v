(* Corr/C17.v — executable check for one C17 case: run the model of trace_context and the
   tracing "by definition" and compare both with what the implementation returned. *)
From FCA Require Export Corr.Common Model.TraceContext Spec.Trace.

Record c17_case := {
  q_exts : list (list nat);      (* extents of the lattice's concepts (they define its order) *)
  q_intents : list (list nat);   (* intents of the lattice's concepts *)
  q_children : list (list nat);  (* the lattice's children_dict *)
  q_top : nat;                   (* the lattice's top index *)
  q_mono : bool;                 (* is_monotone *)
  q_table : table;               (* the traced context *)
  q_names : list nat;            (* its object names (ids) *)
  q_byindex : bool;              (* use_object_indices *)
  (* the two returned dictionaries as (key, members) lists: bottom concepts, traced concepts *)
  q_impl : ires (list (nat * list nat) * list (nat * list nat))
}.

Definition q_lattice (c : c17_case) : lattice :=
  {| lt_intents := q_intents c; lt_children := fun i => nth i (q_children c) [];
     lt_top := q_top c; lt_support := fun i => length (nth i (q_exts c) []);
     lt_monotone := q_mono c |}.

Fixpoint assoc (k : nat) (l : list (nat * list nat)) : option (list nat) :=
  match l with
  | [] => None
  | (k', v) :: l' => if Nat.eqb k k' then Some v else assoc k l'
  end.

(* a dictionary equals the map [f] re-keyed by [key] on the objects 0..h-1 *)
Definition dict_is (d : list (nat * list nat)) (h : nat) (key : nat -> nat) (f : nat -> list nat) : bool :=
  Nat.eqb (length d) h &&
  forallb (fun g => match assoc (key g) d with Some v => same_setb v (f g) | None => false end) (seq 0 h).

Definition id_enum17 (l : list nat) : list nat := l.

Definition c17_key (c : c17_case) : nat -> nat :=
  if q_byindex c then (fun g => g) else (fun g => nth g (q_names c) 0).

Fixpoint nodupb (l : list nat) : bool :=
  match l with [] => true | x :: l' => negb (mem x l') && nodupb l' end.

(* the hypotheses of the theorems, decided on the case *)
Definition c17_promised (c : c17_case) : bool :=
  let n := length (q_intents c) in
  let lt := incl_lt (q_exts c) in
  let t := q_table c in
  Nat.eqb (length (q_exts c)) n && Nat.eqb (length (q_children c)) n &&
  strict_orderb lt n && is_topb lt n (q_top c) &&
  forallb (fun i => same_setb (nth i (q_children c) []) (lower_covers lt n i)) (seq 0 n) &&
  antitone_intentsb lt (q_intents c) &&
  forallb (in_rangeb (width t)) (q_intents c) && wfb t &&
  Nat.eqb (length (q_names c)) (height t) && nodupb (q_names c).

Definition c17_eval (c : c17_case) : bool * bool :=
  let L := q_lattice c in
  let t := q_table c in
  let h := height t in
  let key := c17_key c in
  let lt := incl_lt (q_exts c) in
  let s := trace_final BBitarray L t id_enum17 in
  match q_impl c with
  | IOk (bot, tr) =>
      (negb (q_mono c) && dict_is bot h key (ts_bottom s) && dict_is tr h key (ts_traced s),
       negb (q_mono c) && dict_is bot h key (bottoms_spec lt (q_intents c) t)
                       && dict_is tr h key (traced_spec (q_intents c) t))
  | IErr e => (q_mono c && Nat.eqb e 9, q_mono c && Nat.eqb e 9)
  | IKeyErr _ => (false, false)
  end.

Definition c17_check (c : c17_case) : nat :=
  let '(same, ok) := c17_eval c in
  code_of same (ok || negb (q_mono c || c17_promised c)).

Definition c17_show (c : c17_case) :=
  let L := q_lattice c in let t := q_table c in
  let s := trace_final BBitarray L t id_enum17 in
  (c17_eval c, c17_promised c,
   (tabulate (height t) (ts_bottom s), tabulate (height t) (ts_traced s)),
   (tabulate (height t) (bottoms_spec (incl_lt (q_exts c)) (q_intents c) t),
    tabulate (height t) (traced_spec (q_intents c) t))).

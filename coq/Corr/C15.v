(* Corr/C15.v — executable check for one C15 case.  Four kinds of case:
   Sofia on a formal context, Sofia on a many-valued context of interval columns, the extents
   read off fitted trees, the random-forest miner.  Each runs the model of the code and the
   spec predicates on the case input and compares with the implementation's output. *)
From Coq Require Import QArith.
From FCA Require Export Corr.Common.
From FCA Require Export Spec.C15.
Local Open Scope nat_scope.

Definition mkQ (n : Z) (d : positive) : Q := Qmake n d.

Record tree_arrays := {
  ta_left : list Z; ta_right : list Z; ta_feature : list Z; ta_threshold : list Q
}.

(* what ConceptLattice.from_context returned: extents of its elements, of its top, of its bottom *)
Definition lattice_obs := (list (list nat) * list nat * list nat)%type.

Inductive c15_case :=
| CSofiaF (b : backend) (t : table) (L : nat) (ms : Q) (use_log : bool)
          (impl : ires (list (list nat * list nat))) (lat : ires lattice_obs)
| CSofiaMV (K : mvctx) (L : nat) (ms : Q) (use_log : bool)
           (impl : ires (list (list nat * descr))) (lat : ires lattice_obs)
| CTree (trees : list tree_arrays) (X : list (list Z)) (impl : ires (list (list nat)))
| CForest (K : mvctx) (trees : list tree_arrays)
          (impl : ires (list (list nat * descr))) (lat : ires lattice_obs)
(* a history on ONE many-valued context object: it is mined, edited through the public setters
   (ps.data = column, K.pattern_structures = ...), mined again, ...  The state of the model is the
   current table: every mining step must see exactly it. *)
| CHist (K0 : mvctx) (ops : list hist_op)
with hist_op :=
| HSetCol (j : nat) (col : icol)          (* K.pattern_structures[j].data = col *)
| HSetAll (K : mvctx)                     (* K.pattern_structures = freshly assembled structures *)
| HMine (L : nat) (ms : Q) (use_log : bool)
        (impl : ires (list (list nat * descr))) (lat : ires lattice_obs)
| HBinarize (impl : ires table).          (* K.binarize(): objects x binary attributes *)

Definition idshuffle (l : list extent) : list extent := l.

(* ---- is the outcome independent of the hash order of Python's set?  With the log bound it
   always is (the bound of an extent only depends on the SET of extents); the caspailleur
   routine of the other bound looks at positions, so there the model is compared exactly only
   when no two extents of equal support meet at a pruning step. *)
Fixpoint has_dup_nat (l : list nat) : bool :=
  match l with [] => false | x :: l' => mem x l' || has_dup_nat l' end.

Definition tie_free_run (mu : list extent -> list Q) (n : nat) (attrs : list extent) (ms : Q) (L : nat) : bool :=
  snd (fold_left (fun st a =>
                    let exts := fst st in
                    let ok := match sofia_candidates idshuffle ms exts a with
                              | None => true
                              | Some s => negb ((L <? length s) && has_dup_nat (map bcount s))
                              end in
                    (sofia_step idshuffle mu ms L exts a, snd st && ok))
                 attrs ([repeat true n], true)).

Definition pair_f_eqb (x y : list nat * list nat) : bool :=
  nat_list_eqb (fst x) (fst y) && nat_list_eqb (snd x) (snd y).
Definition pair_mv_eqb (x y : list nat * descr) : bool :=
  nat_list_eqb (fst x) (fst y) && descr_eqb (snd x) (snd y).
Definition set_eqb {A} (eqb : A -> A -> bool) (a b : list A) : bool :=
  forallb (fun x => existsb (eqb x) b) a && forallb (fun x => existsb (eqb x) a) b.

(* the lattice built from the same arguments has the same concepts, the full set on top and
   the least extent at the bottom *)
Definition lattice_ok (n : nat) (exts : list (list nat)) (lat : ires lattice_obs) : bool :=
  match lat with
  | IOk (els, top, bot) =>
      lists_same_set els exts && nat_list_eqb top (seq 0 n) && forallb (subsetb bot) exts
      && existsb (nat_list_eqb bot) exts
  | _ => false
  end.

Definition trees_of (arrs : list tree_arrays) : option (list tree) :=
  fold_right (fun a acc =>
                match tree_of_arrays (S (length (ta_left a))) (ta_left a) (ta_right a)
                                     (ta_feature a) (ta_threshold a) 0%Z, acc with
                | Some t, Some ts => Some (t :: ts)
                | _, _ => None
                end) (Some []) arrs.

Definition sofia_mv_check (K : mvctx) (L : nat) (ms : Q) (use_log : bool)
           (impl : ires (list (list nat * descr))) (lat : ires lattice_obs) : nat :=
  let mu := measure_of use_log in
  let model := sofia_mv idshuffle mu K L ms in
  let n := mv_nobj K in
  match impl with
  | IOk r =>
      let exact := use_log || tie_free_run mu n (mv_bin_attr_extents K) (eff_min_supp ms n) L in
      let same := if exact then set_eqb pair_mv_eqb r model else true in
      let ok := forallb (fun c => mv_is_conceptb K (fst c) (snd c)) r
                && sofia_spec_ok n (mv_extents_spec K) ms L (map fst r)
                && lattice_ok n (map fst r) lat in
      code_of same ok
  | _ => 3
  end.

Fixpoint set_nth {A} (j : nat) (x : A) (l : list A) : list A :=
  match l, j with
  | [], _ => []
  | _ :: l', 0 => x :: l'
  | y :: l', S j' => y :: set_nth j' x l'
  end.

(* MVContext.binarize(): FormalContext(list(attr_extents)).T *)
Definition mv_binarize_table (K : mvctx) : table :=
  map (fun g => map (fun a => nth g a false) (mv_bin_attr_extents K)) (seq 0 (mv_nobj K)).

Definition hist_step (st : mvctx * nat) (op : hist_op) : mvctx * nat :=
  let K := fst st in
  match op with
  | HSetCol j col => (set_nth j col K, snd st)
  | HSetAll K' => (K', snd st)
  | HMine L ms use_log impl lat => (K, Nat.max (snd st) (sofia_mv_check K L ms use_log impl lat))
  | HBinarize impl =>
      (K, Nat.max (snd st)
                  (match impl with
                   | IOk t => if list_eqb bool_list_eqb t (mv_binarize_table K) then 0 else 3
                   | _ => 3 end))
  end.

Definition c15_check (c : c15_case) : nat :=
  match c with
  | CSofiaF b t L ms use_log impl lat =>
      let mu := measure_of use_log in
      let model := sofia_formal idshuffle mu b t L ms in
      let n := height t in
      match impl with
      | IOk r =>
          let exact := use_log || tie_free_run mu n (attr_extents_formal t) (eff_min_supp ms n) L in
          let same := if exact then set_eqb pair_f_eqb r model else true in
          let ok := forallb (fun c => is_conceptb t (fst c) (snd c)) r
                    && sofia_spec_ok n (extents_spec t) ms L (map fst r)
                    && lattice_ok n (map fst r) lat in
          code_of same ok
      | _ => 3
      end
  | CSofiaMV K L ms use_log impl lat => sofia_mv_check K L ms use_log impl lat
  | CTree arrs X impl =>
      match trees_of arrs, impl with
      | Some ts, IOk r =>
          code_of (lists_same_set r (tree_extents ts X))
                  (nodupb r && lists_same_set r (tree_extents_spec ts X))
      | _, _ => 3
      end
  | CForest K arrs impl lat =>
      match trees_of arrs, impl with
      | Some ts, IOk r =>
          let n := mv_nobj K in
          let ok := forallb (fun c => mv_is_conceptb K (fst c) (snd c)) r
                    && nodupb (map fst r)
                    && existsb (nat_list_eqb (seq 0 n)) (map fst r)
                    && lists_same_set (map fst r)
                         (map (mv_cl K) (tree_extents_spec ts (mv_to_numeric K) ++ [[]]))
                    && lattice_ok n (map fst r) lat in
          code_of (set_eqb pair_mv_eqb r (rf_concepts K ts)) ok
      | _, _ => 3
      end
  | CHist K0 ops => snd (fold_left hist_step ops (K0, 0))
  end.

Definition c15_show (c : c15_case) :=
  match c with
  | CSofiaF b t L ms use_log impl lat =>
      (map fst (sofia_formal idshuffle (measure_of use_log) b t L ms), @nil (list nat * descr),
       tie_free_run (measure_of use_log) (height t) (attr_extents_formal t) (eff_min_supp ms (height t)) L)
  | CSofiaMV K L ms use_log impl lat =>
      ([], sofia_mv idshuffle (measure_of use_log) K L ms,
       tie_free_run (measure_of use_log) (mv_nobj K) (mv_bin_attr_extents K) (eff_min_supp ms (mv_nobj K)) L)
  | CTree arrs X impl =>
      (match trees_of arrs with Some ts => tree_extents ts X | None => [] end, [], true)
  | CForest K arrs impl lat =>
      ([], match trees_of arrs with Some ts => rf_concepts K ts | None => [] end, true)
  | CHist K0 ops =>
      (* the concepts the model returns at every mining step, one after the other *)
      ([], snd (fold_left (fun st op =>
                  match op with
                  | HMine L ms ul _ _ =>
                      (fst (hist_step (fst st, 0) op), snd st ++ sofia_mv idshuffle (measure_of ul) (fst st) L ms)
                  | _ => (fst (hist_step (fst st, 0) op), snd st)
                  end) ops (K0, [])), true)
  end.

(* Corr/C07.v — executable check for one C07 case.
   A case carries the input value, what the implementation WROTE (text / parsed JSON value /
   data-frame content / exception kind) and what the implementation READ BACK from that.
   same_as_model : the model writes the same thing, and the model reader applied to what the
                   implementation wrote yields what the implementation read back
   spec_ok       : for an admissible input (Spec/C07_Roundtrip.v) the implementation read back the
                   value that was written; inadmissible inputs are unconstrained *)
From FCA Require Export Corr.Common Spec.C07_Roundtrip.

Inductive written := WText (s : str) | WJson (v : jv) | WFrame (f : frame) | WErr (kind : nat).
Inductive rd_ctx := RCtx (K : sctx) | RCtxErr (kind : nat).
Inductive rd_mv := RMv (K : smv) | RMvErr (kind : nat).
Inductive rd_fc := RFc (c : fcv) | RFcErr (kind : nat).
Inductive rd_pc := RPc (c : pcv) | RPcErr (kind : nat).
Inductive rd_lat := RLat (cs : list conceptv) (children : list (nat * list nat)) (top bottom : nat)
                  | RLatErr (kind : nat).

Inductive c07_case :=
| CtxCase (fmt : nat) (sep : N) (wt wf : str) (K : sctx) (w : written) (r : rd_ctx)
                                      (* fmt: 0 cxt  1 csv  2 json  3 pandas *)
| MvCase (K : smv) (w : written) (r : rd_mv)
| FcCase (objs attrs : list str) (c : fcv) (w : written) (r : rd_fc)
| PcCase (c : pcv) (w : written) (r : rd_pc)
| LatCase (objs attrs : list str) (L : latv) (obs : rd_lat) (w : written) (r : rd_lat).
      (* L : the concepts of the lattice object with the cover relation, top and bottom that the ORDER of
             these concepts defines (computed by the harness from the extents, re-checked by
             lat_admissibleb); obs : children_dict / top / bottom as the object itself reported them
             before it was written (after whatever history of add / remove it went through) *)

Definition kind_of (e : serr) : nat :=
  match e with EKey => 1 | EValue => 2 | EAssert => 6 | EType => 7 | EOther => 11 end.

Definition frame_eqb (a b : frame) : bool :=
  strs_eqb (fr_index a) (fr_index b) && strs_eqb (fr_columns a) (fr_columns b)
  && table_eqb (fr_values a) (fr_values b).

Definition written_eqb (a b : written) : bool :=
  match a, b with
  | WText x, WText y => str_eqb x y
  | WJson x, WJson y => jv_eqb x y
  | WFrame x, WFrame y => frame_eqb x y
  | WErr x, WErr y => Nat.eqb x y
  | _, _ => false
  end.

Definition w_of_jv (r : sres jv) : written := match r with SOk v => WJson v | SErr e => WErr (kind_of e) end.

(* ---------------------------------------------------------------- contexts *)

Definition ctx_model_write (fmt : nat) (sep : N) (wt wf : str) (K : sctx) : written :=
  match fmt with
  | 0 => WText (write_cxt K)
  | 1 => WText (write_csv sep wt wf K)
  | 2 => WJson (write_ctx_json K)
  | _ => WFrame (to_pandas K)
  end.

Definition rd_ctx_of (r : sres sctx) : rd_ctx := match r with SOk K => RCtx K | SErr e => RCtxErr (kind_of e) end.

(* the model reader applied to what the implementation wrote; None: nothing was written *)
Definition ctx_model_read (fmt : nat) (sep : N) (wt wf : str) (w : written) : option rd_ctx :=
  match fmt, w with
  | 0, WText s => Some (rd_ctx_of (read_cxt s))
  | 1, WText s => Some (rd_ctx_of (read_csv sep wt wf s))
  | 2, WJson v => Some (rd_ctx_of (read_ctx_json v))
  | 3, WFrame f => Some (rd_ctx_of (from_pandas f))
  | _, _ => None
  end.

Definition rd_ctx_eqb (a b : rd_ctx) : bool :=
  match a, b with
  | RCtx x, RCtx y => sctx_eqb x y
  | RCtxErr x, RCtxErr y => Nat.eqb x y
  | _, _ => false
  end.

Definition no_desc (K : sctx) : sctx := mk_sctx (sc_onames K) (sc_anames K) None (sc_table K).

(* the property's quantifier, per format *)
Definition ctx_stated (fmt : nat) (sep : N) (wt wf : str) (K : sctx) : bool :=
  match fmt with
  | 0 => cxt_admissibleb K
  | 1 => csv_admissibleb sep wt wf K
  | _ => table_okb K
  end.

Definition ctx_check (fmt : nat) (sep : N) (wt wf : str) (K : sctx) (w : written) (r : rd_ctx) : nat :=
  let same := written_eqb w (ctx_model_write fmt sep wt wf K)
              && match ctx_model_read fmt sep wt wf w with
                 | Some m => rd_ctx_eqb r m
                 | None => match r with RCtxErr _ => true | _ => false end
                 end in
  let expect := if Nat.eqb fmt 2 then K else no_desc K in
  let ok := negb (ctx_stated fmt sep wt wf K) || rd_ctx_eqb r (RCtx expect) in
  code_of same ok.

(* ---------------------------------------------------------------- many-valued contexts *)

Definition rd_mv_of (r : sres smv) : rd_mv := match r with SOk K => RMv K | SErr e => RMvErr (kind_of e) end.
Definition rd_mv_eqb (a b : rd_mv) : bool :=
  match a, b with
  | RMv x, RMv y => smv_eqb x y
  | RMvErr x, RMvErr y => Nat.eqb x y
  | _, _ => false
  end.

Definition mv_check (K : smv) (w : written) (r : rd_mv) : nat :=
  let same := written_eqb w (w_of_jv (write_mv_json K))
              && match w with
                 | WJson v => rd_mv_eqb r (rd_mv_of (read_mv_json v))
                 | _ => match r with RMvErr _ => true | _ => false end
                 end in
  let ok := negb (mv_admissibleb K) || rd_mv_eqb r (RMv K) in
  code_of same ok.

(* ---------------------------------------------------------------- concepts *)

Definition rd_fc_of (r : sres fcv) : rd_fc := match r with SOk c => RFc c | SErr e => RFcErr (kind_of e) end.
Definition rd_fc_eqb (a b : rd_fc) : bool :=
  match a, b with
  | RFc x, RFc y => fcv_eqb x y
  | RFcErr x, RFcErr y => Nat.eqb x y
  | _, _ => false
  end.

Definition fc_check (objs attrs : list str) (c : fcv) (w : written) (r : rd_fc) : nat :=
  let same := written_eqb w (w_of_jv (fc_to_dict objs attrs c))
              && match w with
                 | WJson v => rd_fc_eqb r (rd_fc_of (fc_from_dict v))
                 | _ => match r with RFcErr _ => true | _ => false end
                 end in
  let ok := negb (fc_admissibleb objs attrs c)
            || match r with
               | RFc c' => fcv_core_eqb c' c && meas_eqb (fv_measures c') (fc_measures_after c)
               | _ => false
               end in
  code_of same ok.

Definition rd_pc_of (r : sres pcv) : rd_pc := match r with SOk c => RPc c | SErr e => RPcErr (kind_of e) end.
Definition rd_pc_eqb (a b : rd_pc) : bool :=
  match a, b with
  | RPc x, RPc y => pcv_eqb x y
  | RPcErr x, RPcErr y => Nat.eqb x y
  | _, _ => false
  end.

Definition pc_check (c : pcv) (w : written) (r : rd_pc) : nat :=
  let same := written_eqb w (w_of_jv (pc_to_dict c))
              && match w with
                 | WJson v => rd_pc_eqb r (rd_pc_of (pc_from_dict v))
                 | _ => match r with RPcErr _ => true | _ => false end
                 end in
  let ok := negb (pc_admissibleb c)
            || match r with
               | RPc c' => pcv_core_eqb c' c && meas_eqb (pv_measures c') (pc_measures_after c)
               | _ => false
               end in
  code_of same ok.

(* ---------------------------------------------------------------- lattices *)

Definition lat_check (objs attrs : list str) (L : latv) (obs : rd_lat) (w : written) (r : rd_lat) : nat :=
  let same :=
      written_eqb w (w_of_jv (write_lattice_json objs attrs L))
      && match w with
         | WJson v =>
             match read_lattice_json v, r with
             | SOk cs, RLat cs' ch' t' b' =>
                 (* the concepts the model decodes, and the order a lattice object derives from them *)
                 list_eqb_g conceptv_eqb cs cs'
                 && children_eqb ch' (derived_children cs)
                 && is_top cs t' && is_bottom cs b'
             | SErr e, RLatErr k => Nat.eqb k (kind_of e)
             | _, _ => false
             end
         | _ => match r with RLatErr _ => true | _ => false end
         end in
  let ok := negb (lat_admissibleb objs attrs L)
            || match r with
               | RLat cs' ch' t' b' =>
                   list_eqb_g (fun c' c => conceptv_core_eqb c' c
                                           && meas_eqb (concept_measures c') (concept_measures_after c))
                              cs' (lv_concepts L)
                   && children_eqb ch' (lv_children L)
                   && Nat.eqb t' (lv_top L) && Nat.eqb b' (lv_bottom L)
                   (* ... and the object that was written was itself consistent with its order *)
                   && match obs with
                      | RLat _ ch t b => children_eqb ch (lv_children L)
                                         && Nat.eqb t (lv_top L) && Nat.eqb b (lv_bottom L)
                      | RLatErr _ => false
                      end
               | _ => false
               end in
  code_of same ok.

Definition c07_check (c : c07_case) : nat :=
  match c with
  | CtxCase fmt sep wt wf K w r => ctx_check fmt sep wt wf K w r
  | MvCase K w r => mv_check K w r
  | FcCase objs attrs c w r => fc_check objs attrs c w r
  | PcCase c w r => pc_check c w r
  | LatCase objs attrs L obs w r => lat_check objs attrs L obs w r
  end.

Inductive c07_shown :=
| ShCtx (admissible : bool) (w : written) (r : option rd_ctx)
| ShMv (admissible : bool) (w : written) (r : option rd_mv)
| ShFc (admissible : bool) (w : written) (r : option rd_fc)
| ShPc (admissible : bool) (w : written) (r : option rd_pc)
| ShLat (admissible : bool) (w : written) (r : option (sres (list conceptv))).

Definition c07_show (c : c07_case) : c07_shown :=
  match c with
  | CtxCase fmt sep wt wf K w _ =>
      ShCtx (ctx_stated fmt sep wt wf K)
            (ctx_model_write fmt sep wt wf K) (ctx_model_read fmt sep wt wf w)
  | MvCase K w _ =>
      ShMv (mv_admissibleb K) (w_of_jv (write_mv_json K))
           (match w with WJson v => Some (rd_mv_of (read_mv_json v)) | _ => None end)
  | FcCase objs attrs c w _ =>
      ShFc (fc_admissibleb objs attrs c) (w_of_jv (fc_to_dict objs attrs c))
           (match w with WJson v => Some (rd_fc_of (fc_from_dict v)) | _ => None end)
  | PcCase c w _ =>
      ShPc (pc_admissibleb c) (w_of_jv (pc_to_dict c))
           (match w with WJson v => Some (rd_pc_of (pc_from_dict v)) | _ => None end)
  | LatCase objs attrs L _ w _ =>
      ShLat (lat_admissibleb objs attrs L) (w_of_jv (write_lattice_json objs attrs L))
            (match w with WJson v => Some (read_lattice_json v) | _ => None end)
  end.

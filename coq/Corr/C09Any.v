(* Corr/C09Any.v — C09 is about every partially ordered set object: plain POSet histories
   (Corr/C09.v) and histories on UpperSemiLattice / LowerSemiLattice / Lattice objects, which
   are judged by the check of Corr/C11.v (model Model/PosetLattice.v with the cached top/bottom
   index, cache-free meaning sl_spec_run: refusals predicted from the spec). *)
From FCA Require Export Corr.C09 Corr.C11.

Inductive c09_any := PCase (c : c09_case) | SCase (c : c11_case).

Definition c09_any_check (a : c09_any) : nat :=
  match a with PCase c => c09_check c | SCase c => c11_check c end.

Inductive c09_any_shown :=
| PShown (x : option (list (xout nat) * list (out nat) * bool) * (list (xout nat) * list (out nat) * bool) * option (state nat))
| SShown (x : (out nat * list (out nat) * list (out nat)) * (out nat * list (out nat) * list (out nat))).

Definition c09_any_show (a : c09_any) : c09_any_shown :=
  match a with PCase c => PShown (c09_show c) | SCase c => SShown (c11_show c) end.

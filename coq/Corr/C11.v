(* Corr/C11.v — executable check for one C11 case: construction of an UpperSemiLattice /
   LowerSemiLattice / Lattice (ConceptLattice at the concept level) over a generated order and a
   history of calls, refused ones included.  After every call the output is compared with the
   model and with the cache-free spec (a refused call must report the exception kind AND leave
   the object unchanged: the harness reports kind 99 otherwise); at the end every query plus
   top / bottom and the element list. *)
From FCA Require Export Corr.C09 Model.PosetLattice.

Record c11_case := {
  l_matrix : list (list bool);
  l_kind : sl_kind;
  l_init : list nat;
  l_cache : bool;
  l_cd : option cache;
  l_ops : list (sl_op nat);
  l_ctor : out nat;                   (* ONone: constructed; OErr k: the constructor raised *)
  l_impl : list (out nat);
  l_final : list (out nat)
}.

Definition sl_final_queries (k : sl_kind) (n : nat) : list (sl_op nat) :=
  map SP (final_queries n) ++
  (if has_ext k true then [SExt true] else []) ++ (if has_ext k false then [SExt false] else []).

Definition c11_model (c : c11_case) : out nat * list (out nat) * list (out nat) :=
  let leq := mleq (l_matrix c) in
  match sl_make nat leq (l_kind c) (l_init c) (l_cache c) (l_cd c) with
  | None => (OErr EValue, [], [])
  | Some sl =>
      let '(s1, outs) := sl_run nat leq Nat.eqb sl (l_ops c) in
      let '(s2, fin) := sl_run nat leq Nat.eqb s1 (sl_final_queries (l_kind c) (length (els (ps s1)))) in
      (ONone, outs, fin ++ [OEls (els (ps s2))])
  end.

Definition c11_spec (c : c11_case) : out nat * list (out nat) * list (out nat) :=
  let leq := mleq (l_matrix c) in
  if sl_spec_ok nat leq (l_kind c) (l_init c) then
    let '(e1, outs) := sl_spec_run nat leq Nat.eqb (l_kind c) (l_init c) (l_cache c) (l_ops c) in
    (ONone, outs,
     map (fun q => snd (sl_spec_step nat leq Nat.eqb (l_kind c) e1 (l_cache c) q))
         (sl_final_queries (l_kind c) (length e1)) ++ [OEls e1])
  else (OErr EValue, [], []).

Definition same3 (c : c11_case) (r : out nat * list (out nat) * list (out nat)) : bool :=
  let '(a, b, d) := r in
  out_eqb (l_ctor c) a && outs_eqb (l_impl c) b && outs_eqb (l_final c) d.

Definition c11_check (c : c11_case) : nat := code_of (same3 c (c11_model c)) (same3 c (c11_spec c)).
Definition c11_show (c : c11_case) := (c11_model c, c11_spec c).

(* Corr/C14.v — executable check for one C14 case: a many-valued context, an operation and what
   the implementation answered.
   op 0  closures     : for every listed object subset A, intention_i(A) and extension_i(intention_i(A))
   op 1  extension_i  : description dict (by structure index, any sub-dict, any order) and base set
   op 2  extension    : by names (description dict keyed by structure names, base object names)
   op 3  intention    : by names
   op 4  binarize     : the boolean table, n_bin_attrs, object names, number of attribute names
   op 5  ConceptLattice.from_context(K, n_projections_to_binarize = thr): concepts + covers, or KeyError
   op 6  close_by_one(K, thr): the yielded concepts, as a list
   op 7  close_by_one_objectwise(K): the yielded concepts, as a list
   op 8  PatternConcept.from_objects(objs, K, is_extent = (thr = 1)): extent_i, extent (names),
         intent_i, intent (by name)
   op 9  describe_pattern({name: description}): the (name, description) pairs that are printed
   op 10 both paths through the library's own eyes: L1 = from_context(K, 1000), L0 = from_context(K, 0);
         L1 == L0, L0 == L1, every concept of L1 `in` L0 and vice versa, len(set(L1) | set(L0)),
         len of a dict keyed by the concepts of both, every concept of one `==` some concept of the
         other, the same for the two generators close_by_one / close_by_one_objectwise, len(L1), len(L0)
   Known open findings (code + 10*k when the guard of finding k is false):
     k = 1 (D16) object-wise path: the conventional closure of the empty set is not below every
                 object's closure;
     k = 2 (D17) binarising path: the binarised bottom extent is empty while the conventional
                 closure of the empty set is not. *)
From FCA Require Export Corr.Common Model.MVContext Spec.MVLatticeSpec.

Inductive c14_out :=
| OClosures (l : list (list desc * list nat))
| OIdx (l : list nat)
| ODescs (l : list (nat * desc))
| OBin (t : table) (nbin : nat) (onames : list nat) (n_attr_names : nat)
| OLattice (cs : list (list nat * list desc)) (covers : list (list nat * list nat))
| OConcepts (cs : list (list nat * list desc))
| OViews (ext_i ext : list nat) (int_i : list desc) (int_named : list (nat * desc))
| OAgree (flags : list bool) (union_sz dict_sz gen_union_sz n1 n0 : nat)
| OKeyErr (name : nat)
| OErr (kind : nat).

Record c14_case := {
  m_K : mvctx;
  m_op : nat;
  m_subsets : list (list nat);
  m_ds : list (nat * desc);
  m_base : option (list nat);
  m_thr : nat;
  m_impl : c14_out
}.

Definition cols (c : c14_case) : mvtable := mv_cols (m_K c).
Definition nobj (c : c14_case) : nat := mv_n (m_K c).

(* the guards of the findings are Model/MVContext.v's guard_D16 / guard_D17 *)
Definition objectwise_path (c : c14_case) : bool :=
  match m_op c with
  | 7 => true
  | 5 | 6 => m_thr c <? mv_n_bin_attrs (m_K c)
  | _ => false
  end.

Definition finding_index (c : c14_case) : nat :=
  match m_op c with
  | 5 | 6 | 7 =>
      if objectwise_path c
      then (if guard_D16 (m_K c) then 0 else 1)
      else (if guard_D17 (m_K c) then 0 else 2)
  | 10 => if guard_D17 (m_K c) then (if guard_D16 (m_K c) then 0 else 1) else 2
  | _ => 0
  end.

(* ------------------------------------------------------------------ model side *)
Definition pc_pair (p : pconcept) : list nat * list desc := (pc_ext p, map snd (pc_int p)).

Definition ddict_eqb (a b : list (nat * desc)) : bool :=
  list_eqb (fun x y => Nat.eqb (fst x) (fst y) && desc_eqb (snd x) (snd y)) a b.

Definition closure_eqb (a b : list desc * list nat) : bool :=
  descs_eqb (fst a) (fst b) && nat_list_eqb (snd a) (snd b).

Definition has_dup (l : list (list nat * list desc)) : bool := negb (no_dup_extents l).

Definition c14_same (c : c14_case) : bool :=
  let K := m_K c in
  match m_op c, m_impl c with
  | 0, OClosures l =>
      list_eqb closure_eqb l
        (map (fun A => let i := mv_intention_i K A in (map snd i, mv_extension_i K i None)) (m_subsets c))
  | 1, OIdx l => nat_list_eqb l (mv_extension_i K (m_ds c) (m_base c))
  | 2, OIdx l => match mv_extension K (m_ds c) (m_base c) with Ok r => same_setb l r && Nat.eqb (length l) (length r) | _ => false end
  | 2, OKeyErr e => match mv_extension K (m_ds c) (m_base c) with ErrKey e' => Nat.eqb e e' | _ => false end
  | 3, ODescs l => ddict_eqb l (mv_intention K (nth 0 (m_subsets c) []))
  | 4, OBin t nb on na =>
      list_eqb bool_list_eqb t (mv_binarize K) && Nat.eqb nb (mv_n_bin_attrs K)
      && nat_list_eqb on (mv_onames K) && Nat.eqb na (length (mv_bin_attrs K))
  | 5, OLattice cs _ =>
      match mv_from_context K (m_thr c) with
      | Some m => concepts_same_set cs (map pc_pair m) && Nat.eqb (length cs) (length m)
      | None => false
      end
  | 5, OErr 1 => match mv_from_context K (m_thr c) with None => true | Some _ => false end
  | 6, OConcepts cs =>
      let m := map pc_pair (mv_close_by_one K (m_thr c)) in
      concepts_same_set cs m && Nat.eqb (length cs) (length m) && Bool.eqb (has_dup cs) (has_dup m)
  | 7, OConcepts cs =>
      let m := map pc_pair (mv_cbo_objectwise K) in
      concepts_same_set cs m && Nat.eqb (length cs) (length m) && Bool.eqb (has_dup cs) (has_dup m)
  | 8, OViews ei en ii inn =>
      let v := pc_from_objects_views K (nth 0 (m_subsets c) []) (Nat.eqb (m_thr c) 1) in
      nat_list_eqb ei (pv_ext_i v) && nat_list_eqb en (pv_ext v)
      && descs_eqb ii (map snd (pv_int_i v)) && ddict_eqb inn (pv_int v)
  | 10, OAgree flags u d gu n1 n0 =>
      (* concepts compare (==) and hash by their extent read as a set *)
      match mv_from_context K 1000, mv_from_context K 0 with
      | Some a, Some b =>
          let ea := map pc_ext a in let eb := map pc_ext b in
          let sub x y := forallb (fun e => existsb (same_setb e) y) x in
          let distinct := fix distinct (l : list (list nat)) : nat :=
                            match l with
                            | [] => 0
                            | e :: r => (if existsb (same_setb e) r then 0 else 1) + distinct r
                            end in
          let eq := sub ea eb && sub eb ea in
          bool_list_eqb flags [eq; eq; sub ea eb; sub eb ea; sub ea eb; sub eb ea]
          && Nat.eqb u (distinct (ea ++ eb)) && Nat.eqb d (distinct (ea ++ eb))
          && Nat.eqb gu (distinct (map pc_ext (mv_close_by_one K 1000) ++ map pc_ext (mv_cbo_objectwise K)))
          && Nat.eqb n1 (length a) && Nat.eqb n0 (length b)
      | _, _ => false
      end
  | 10, OErr 1 =>
      match mv_from_context K 1000, mv_from_context K 0 with Some _, Some _ => false | _, _ => true end
  | 9, ODescs l => match describe_entries K (m_ds c) with Some r => ddict_eqb l r | None => false end
  | 9, OErr 2 => match describe_entries K (m_ds c) with None => true | Some _ => false end
  | _, _ => false
  end.

(* ------------------------------------------------------------------ spec side *)
Fixpoint lookup_closure (l : list (list nat * list nat)) (A : list nat) : option (list nat) :=
  match l with
  | [] => None
  | (B, clB) :: rest => if same_setb A B then Some clB else lookup_closure rest A
  end.

(* the three closure laws, evaluated on the implementation's own answers *)
Definition closure_laws_ok (pairs : list (list nat * list nat)) : bool :=
  forallb (fun p => match fst p with
                    | [] => true
                    | _ => subsetb (fst p) (snd p)                                        (* extensive *)
                           && match lookup_closure pairs (snd p) with
                              | Some cc => same_setb cc (snd p)                           (* idempotent *)
                              | None => true
                              end
                           && forallb (fun q => match fst q with
                                                | [] => true
                                                | _ => implb (subsetb (fst p) (fst q))
                                                             (subsetb (snd p) (snd q))    (* monotone *)
                                                end) pairs
                    end) pairs.

Definition spec_ddict (K : mvtable) (n : nat) (ds : list (nat * desc)) (g : nat) : bool :=
  forallb (fun id => covers (snd id) (value_at (nth (fst id) K (CAttr [])) g)) ds.

Fixpoint first_index_from' (k : nat) (names : list nat) (x : nat) : option nat :=
  match names with
  | [] => None
  | y :: ys => if Nat.eqb x y then Some k else first_index_from' (S k) ys x
  end.

Definition lattice_spec_ok (K : mvtable) (n : nat) (cs : list (list nat * list desc)) : bool :=
  concepts_same_set cs (mv_concepts_spec K n) && no_dup_extents cs.

Definition c14_ok (c : c14_case) : bool :=
  let K := cols c in let n := nobj c in
  match m_op c, m_impl c with
  | 0, OClosures l =>
      forallb2 (fun A r => descs_eqb (fst r) (mv_int_spec K A)
                           && nat_list_eqb (snd r) (mv_cl_spec K n A)) (m_subsets c) l
      && closure_laws_ok (combine (m_subsets c) (map snd l))
  | 1, OIdx l =>
      nat_list_eqb l (filter (spec_ddict K n (m_ds c)) (default (seq 0 n) (m_base c)))
  | 2, OIdx l =>
      (* names are distinct in generated cases: index = first occurrence *)
      forallb (fun nd => match first_index_from' 0 (mv_pnames (m_K c)) (fst nd) with Some _ => true | None => false end) (m_ds c)
      && let dsi := map (fun nd => (match first_index_from' 0 (mv_pnames (m_K c)) (fst nd) with Some i => i | None => 0 end, snd nd)) (m_ds c) in
         let base := match m_base c with
                     | None => seq 0 n
                     | Some b => filter (fun g => mem (nth g (mv_onames (m_K c)) 0) b) (seq 0 n)
                     end in
         same_setb l (map (fun g => nth g (mv_onames (m_K c)) 0) (filter (spec_ddict K n dsi) base))
         && Nat.eqb (length l) (length (filter (spec_ddict K n dsi) base))
  | 2, OKeyErr e =>
      (* the first description name the context does not have *)
      match filter (fun nd => match first_index_from' 0 (mv_pnames (m_K c)) (fst nd) with Some _ => false | None => true end) (m_ds c) with
      | nd :: _ => Nat.eqb e (fst nd)
      | [] => false
      end
  | 3, ODescs l =>
      let A := filter (fun g => mem (nth g (mv_onames (m_K c)) 0) (nth 0 (m_subsets c) [])) (seq 0 n) in
      ddict_eqb l (combine (mv_pnames (m_K c)) (mv_int_spec K A))
  | 4, OBin t nb on na =>
      Nat.eqb (height t) n && wfb t && Nat.eqb (width t) nb && Nat.eqb na nb
      && nat_list_eqb on (mv_onames (m_K c))
      && bin_same_closures K n t
  | 5, OLattice cs cov =>
      lattice_spec_ok K n cs && pairs_same_set cov (covers_spec (map fst cs))
      && Nat.eqb (length cov) (length (covers_spec (map fst cs)))
  | 6, OConcepts cs | 7, OConcepts cs => lattice_spec_ok K n cs
  | 8, OViews ei en ii inn =>
      let objs := nth 0 (m_subsets c) [] in
      nat_list_eqb ei (if Nat.eqb (m_thr c) 1 then objs else mv_cl_spec K n objs)
      && nat_list_eqb en (map (fun g => nth g (mv_onames (m_K c)) 0) ei)
      && descs_eqb ii (mv_int_spec K objs)
      && ddict_eqb inn (combine (mv_pnames (m_K c)) (mv_int_spec K objs))
  | 10, OAgree flags u d gu n1 n0 =>
      (* the direct and the binarising path return the same lattice: equal as POSets both ways,
         mutually contained, and the concepts of both collapse to one copy each in a set / dict *)
      let m := length (mv_concepts_spec K n) in
      forallb (fun x => x) flags && Nat.eqb (length flags) 6
      && Nat.eqb u m && Nat.eqb d m && Nat.eqb gu m && Nat.eqb n1 m && Nat.eqb n0 m
  | 9, ODescs l =>
      (* every name known; the pairs in dict order, without the AttributePS entries whose
         description is False (they print as the empty text) *)
      forallb (fun nd => match first_index_from' 0 (mv_pnames (m_K c)) (fst nd) with Some _ => true | None => false end) (m_ds c)
      && ddict_eqb l (filter (fun nd => match first_index_from' 0 (mv_pnames (m_K c)) (fst nd) with
                                        | Some i => match nth i K (CAttr []), snd nd with
                                                    | CAttr _, DAttr false => false
                                                    | _, _ => true end
                                        | None => true end) (m_ds c))
  | 9, OErr 2 =>
      negb (forallb (fun nd => match first_index_from' 0 (mv_pnames (m_K c)) (fst nd) with Some _ => true | None => false end) (m_ds c))
  | _, _ => false
  end.

Definition c14_check (c : c14_case) : nat :=
  match code_of (c14_same c) (c14_ok c) with
  | 0 => 0
  | r => r + 10 * finding_index c
  end.

Definition c14_show (c : c14_case) :=
  let K := m_K c in
  (c14_same c, c14_ok c, finding_index c,
   match m_op c with
   | 0 => OClosures (map (fun A => let i := mv_intention_i K A in (map snd i, mv_extension_i K i None)) (m_subsets c))
   | 1 => OIdx (mv_extension_i K (m_ds c) (m_base c))
   | 2 => match mv_extension K (m_ds c) (m_base c) with Ok r => OIdx r | ErrKey e => OKeyErr e end
   | 3 => ODescs (mv_intention K (nth 0 (m_subsets c) []))
   | 4 => OBin (mv_binarize K) (mv_n_bin_attrs K) (mv_onames K) (length (mv_bin_attrs K))
   | 5 => match mv_from_context K (m_thr c) with Some m => OConcepts (map pc_pair m) | None => OErr 1 end
   | 6 => OConcepts (map pc_pair (mv_close_by_one K (m_thr c)))
   | 8 => let v := pc_from_objects_views K (nth 0 (m_subsets c) []) (Nat.eqb (m_thr c) 1) in
          OViews (pv_ext_i v) (pv_ext v) (map snd (pv_int_i v)) (pv_int v)
   | 9 => match describe_entries K (m_ds c) with Some r => ODescs r | None => OErr 2 end
   | 10 => match mv_from_context K 1000, mv_from_context K 0 with
           | Some a, Some b => OConcepts (map pc_pair a ++ [([], [])] ++ map pc_pair b)
           | _, _ => OErr 1 end
   | _ => OConcepts (map pc_pair (mv_cbo_objectwise K))
   end,
   mv_concepts_spec (mv_cols K) (mv_n K)).

(* Corr/C16.v — executable check for one C16 case: a context, the lattice the implementation
   built from it (extents, intents, children), and the four measures it stored per concept.
   The model side recomputes the measures with Model/C16_Stability.v from the lattice AS GIVEN by
   the implementation; the spec side recomputes concepts, lower covers, stability and bounds from
   the table alone, and re-checks the three inequalities on the implementation's own numbers. *)
From FCA Require Export Corr.Common Model.C16_Stability Spec.C16_StabilitySpec.
From Coq Require Import ZArith QArith.
Local Open Scope nat_scope.

Record c16_concept := {
  k_extent : list nat;
  k_intent : list nat;
  k_children : list nat;            (* indexes of lattice.children(c_i) *)
  k_stab : Q;                       (* measures['Stab'] *)
  k_lstab : Q;                      (* measures['LStab'] *)
  k_ustab : Q;                      (* measures['UStab'] *)
  k_logd : option (option nat);     (* log_stability_lbound(c_i, lattice, 1): exact; Some None = +inf;
                                       None = not a natural number *)
  k_logm : option (option nat)      (* measures['log_stability_lbound'] + log2(n_bin_attrs), within 1e-9 of
                                       a natural number; None otherwise *)
}.

(* one observation of the lattice: its current concept list (in the lattice's own order), the
   measures stored in it and what `lattice.measures` returned.  [s_complete] says whether the
   lattice is, at this moment, the complete concept lattice of the table (false after concepts
   have been removed: then the children are the covers inside the remaining family and only the
   upper bound is promised to bracket the stability) *)
Record c16_snap := {
  s_complete : bool;
  s_fresh : bool;                   (* every measure has been (re)computed since the lattice last changed; when
                                       false the stored values may describe an earlier lattice and only the
                                       storage clause is judged: one value per concept, array entry i = the
                                       value held by concept i, equally long arrays *)
  s_concepts : list c16_concept;
  s_ops : list nat;                 (* every calc_concepts_measures call made so far, in order (see measure_op) *)
  s_keys : list nat;                (* keys of lattice.measures, in order *)
  s_lens : list nat;                (* lengths of its arrays *)
  s_arrays_match : bool             (* lattice.measures[k][i] is concept i's measures[k], all k, i *)
}.

Record c16_case := {
  c_backend : backend;
  c_table : table;
  c_snaps : list c16_snap;
  c_err : nat                       (* 0, or the kind of the exception raised *)
}.

Definition lat (c : c16_snap) : list concept := map (fun k => (k_extent k, k_intent k)) (s_concepts c).
Definition chs (c : c16_snap) : list (list nat) := map k_children (s_concepts c).

Fixpoint dict_get {V} (d : mdict V) (k : nat) : option V :=
  match d with
  | [] => None
  | (k', v) :: d' => if Nat.eqb k k' then Some v else dict_get d' k
  end.

Definition opt_nat_eqb (a b : option nat) : bool :=
  match a, b with
  | None, None => true
  | Some x, Some y => Nat.eqb x y
  | _, _ => false
  end.

Definition is_q (v : option mval) (q : Q) : bool :=
  match v with Some (VQ m) => Qeq_bool m q | _ => false end.
Definition is_log (v : option mval) (d : option (option nat)) (w : nat) : bool :=
  match v, d with Some (VLog m n), Some x => opt_nat_eqb m x && Nat.eqb n w | _, _ => false end.

(* ---- model side *)
Definition snap_model_ok (bk : backend) (t : table) (c : c16_snap) : bool :=
  let st := run_measures bk t (lat c) (chs c) (s_ops c) in
  let w := width t in
  (if s_fresh c then
     forallb (fun kd =>
                let k := fst kd in let d := snd kd in
                is_q (dict_get d 4) (k_stab k) && is_q (dict_get d 1) (k_lstab k) &&
                is_q (dict_get d 2) (k_ustab k) && is_log (dict_get d 3) (k_logm k) w &&
                is_log (dict_get d 3) (k_logd k) w)
             (combine (s_concepts c) st)
   else true) &&
  match measures_m st with
  | None => false
  | Some md => nat_list_eqb (map fst md) (s_keys c) &&
               nat_list_eqb (map (fun kv => length (snd kv)) md) (s_lens c)
  end.

Definition c16_model_ok (c : c16_case) : bool :=
  forallb (snap_model_ok (c_backend c) (c_table c)) (c_snaps c).

(* ---- spec side *)
Definition set_of_lists_eqb (a b : list (list nat)) : bool :=
  forallb (fun x => existsb (nat_list_eqb x) b) a && forallb (fun x => existsb (nat_list_eqb x) a) b.

(* a (possibly pruned) family of concepts of t, each once *)
Definition concepts_okb (t : table) (L : list (list nat * list nat)) : bool :=
  forallb (fun c => is_conceptb t (fst c) (snd c)) L &&
  Nat.eqb (length (nodup_lists (map fst L))) (length L).

Definition snap_spec_ok (t : table) (c : c16_snap) : bool :=
  let L := lat c in
  let exts := map fst L in
  let w := width t in
  let full := s_complete c in
  (if full then complete_latticeb t L else concepts_okb t L) &&
  forallb (fun k =>
             let A := k_extent k in let B := k_intent k in
             let md := min_delta_spec exts A in
             (* the lattice's own children are the covers inside its family of extents *)
             set_of_lists_eqb (children_extents L (k_children k)) (lower_covers exts A) &&
             Nat.eqb (length (k_children k)) (length (lower_covers exts A)) &&
             (if s_fresh c then
                Qeq_bool (k_stab k) (stab_spec t A B) &&
                Qeq_bool (k_lstab k) (lstab_spec exts A) &&
                Qeq_bool (k_ustab k) (ustab_spec exts A) &&
                match k_logd k, k_logm k with
                | Some d, Some d' => opt_nat_eqb d md && opt_nat_eqb d' md &&
                                     (if full then log_bound_holdsb (k_stab k) d w else true)
                | _, _ => false
                end &&
                (* the inequalities, on the implementation's own numbers: the upper bound always, the
                   lower (and logarithmic) one only when the children are ALL lower covers *)
                (if full then Qle_bool (k_lstab k) (k_stab k) else true) &&
                Qle_bool (k_stab k) (k_ustab k)
              else true))
          (s_concepts c) &&
  (* one value per concept, equally long arrays *)
  forallb (fun n => Nat.eqb n (length L)) (s_lens c) &&
  Nat.eqb (length (s_lens c)) (length (s_keys c)) &&
  same_setb (s_keys c) [1; 2; 3; 4] && Nat.eqb (length (s_keys c)) 4 &&
  s_arrays_match c.

Definition c16_spec_ok (c : c16_case) : bool := forallb (snap_spec_ok (c_table c)) (c_snaps c).

Definition c16_check (c : c16_case) : nat :=
  match c_err c with
  | 0 => code_of (c16_model_ok c) (c16_spec_ok c)
  | _ => 3
  end.

Definition snap_show (bk : backend) (t : table) (c : c16_snap) :=
  let exts := map fst (lat c) in
  (snap_model_ok bk t c, snap_spec_ok t c, s_complete c, s_fresh c,
   map (fun k => let A := k_extent k in
                 (A, (stability_m bk t A (k_intent k),
                      stability_bounds_m A (children_extents (lat c) (k_children k)),
                      log_lbound_m A (children_extents (lat c) (k_children k))),
                  (stab_spec t A (k_intent k), lstab_spec exts A, ustab_spec exts A,
                   min_delta_spec exts A, lower_covers exts A)))
       (s_concepts c),
   option_map (map (fun kv => (fst kv, length (snd kv))))
              (measures_m (run_measures bk t (lat c) (chs c) (s_ops c)))).

Definition c16_show (c : c16_case) := map (snap_show (c_backend c) (c_table c)) (c_snaps c).

(* Corr/C06.v — executable check of one C06 case.  The case carries the input and everything the
   implementation was observed to return; the check runs the model (Model/Duality.v) and the
   spec (Spec/DualitySpec.v, Spec/Closure.v) and compares.
   Strings travel as ids into the case's own dictionary [strs]; they are decoded before any
   comparison, so the prefix toggle is checked at the character level. *)
From FCA Require Export Corr.Common Model.Duality Spec.DualitySpec.

(* ------------------------------------------------------------------ shipped data *)

Definition ctx_d := (table * list nat * list nat)%type.                 (* table, object-name ids, attribute-name ids *)
Definition con_d := (list nat * list nat * list nat * list nat * option Z * bool)%type.
                                                                         (* extent_i, extent ids, intent_i, intent ids, hash, is_monotone *)
Definition rels_d := (list (list nat) * list (list nat) * list (list nat) * list (list nat) * list (list nat))%type.
   (* by index i: parents_dict, descendants_dict, ancestors_dict, { j | L.leq_elements(i, j) }, { j | L[i] <= L[j] } *)
Definition lat_d := (list con_d * list (list nat) * bool * rels_d)%type.
                                                                         (* concepts, children_dict by index, lattice.is_monotone, the other relations *)

(* the harness writes code points as binary numbers: a unary literal like 116 costs the type
   checker more than the whole evaluation of the case *)
Definition mkstrs (l : list (list N)) : list str := map (map N.to_nat) l.

Definition dec (strs : list str) (ids : list nat) : list str := map (fun i => nth i strs []) ids.

(* constructors with explicitly typed arguments (cheaper to elaborate than nested tuple literals);
   the four relation dictionaries travel as one bit mask per key (they are sets of indexes below
   the number of concepts — the harness rejects anything else before printing) *)
Definition unmask (n : nat) (m : N) : list nat := filter (fun i => N.testbit m (N.of_nat i)) (seq 0 n).
Definition mkcon (ei e ii i : list nat) (h : option Z) (m : bool) : con_d := (ei, e, ii, i, h, m).
Definition mklat (cs : list con_d) (m : bool) (ch par de an leq cle : list N) : lat_d :=
  let n := length cs in
  (cs, map (unmask n) ch, m,
   (map (unmask n) par, map (unmask n) de, map (unmask n) an, map (unmask n) leq, map (unmask n) cle)).
Definition mkctx (t : table) (on an : list nat) : ctx_d := (t, on, an).

Definition dec_ctx (strs : list str) (k : ctx_d) : ctx :=
  let '(t, on, an) := k in {| k_tbl := t; k_on := dec strs on; k_an := dec strs an |}.

Definition dec_con (strs : list str) (c : con_d) : concept :=
  let '(ei, e, ii, i, h, m) := c in
  {| c_ext_i := ei; c_ext := dec strs e; c_int_i := ii; c_int := dec strs i; c_hash := h; c_mono := m |}.

Definition dec_lat (strs : list str) (l : lat_d) : lattice :=
  let '(cs, ch, m, _) := l in
  {| l_concepts := map (dec_con strs) cs; l_children := ch; l_mono := m |}.

Definition rels_of (l : lat_d) : rels_d := snd l.

Inductive c06_case :=
| CTrans (b : backend) (strs : list str) (k : ctx_d)
         (out : ires (ctx_d * ctx_d * ires bool))                       (* K.T, K.T.T, K.T.T == K *)
| CPrimes (b : backend) (t : table) (basesA basesO repsO repsA : list (list nat))
          (out : ires (list (list nat) * list (list nat) * list (list nat) * list (list nat)
                       * (list (list nat) * list (list nat))
                       * (list (list nat) * list (list nat) * list (list nat) * list (list nat))
                       * (list (list (list nat)) * list (list (list nat))
                          * list (list (list nat)) * list (list (list nat)))))
            (* K.T.extension_i(X), K.T.intention_i(Y), K.intention_i(X), K.extension_i(Y)
               for X in sublists (objects of K), Y in sublists (attributes of K);
               the same two K.T operators by NAME (answers mapped back to indexes by the harness);
               and per base set B of basesA (attributes of K) / basesO (objects of K):
               K.T.extension_i(X, B), K.intention_i(X, B), K.T.intention_i(Y, B), K.extension_i(Y, B);
               (third component) listings WITH repeated entries, repsO over objects / repsA over
               attributes, some padded to exactly n_objects / n_attributes entries:
               K.T.extension_i(Xr), K.intention_i(Xr), K.T.intention_i(Yr), K.extension_i(Yr) *)
| CLatT (b : backend) (strs : list str) (k : ctx_d)
        (out : ires (lat_d * lat_d * lat_d))                             (* L = lattice(K), L.T, lattice(K.T) *)
| CCompl (b : backend) (strs : list str) (k : ctx_d)
         (out : ires (ctx_d * ctx_d * ires bool))                       (* ~K, ~~K, ~~K == K *)
| CRelabel (b : backend) (strs : list str) (k : ctx_d) (ps pc : list nat) (on' an' : list nat)
           (out : ires (lat_d * lat_d * (ctx_d * lat_d * list (list nat) * list (list nat))))
             (* lattice(K), lattice(K relabelled by hand), and the library's own route K3 = K[ps, pc]:
                K3, lattice(K3), K3.extension_i(Y) for Y in sublists(attributes), K3.intention_i(X) *)
| CMono (b : backend) (strs : list str) (k : ctx_d) (h : option Z)
        (out : ires (lat_d * lat_d * list (list (ires bool)) * lat_d)).
          (* lattice(~K), M = monotone lattice(K), its <= matrix, M.T *)

(* ------------------------------------------------------------------ equalities *)

Definition ctx_eqb (a b : ctx) : bool :=
  table_eqb (k_tbl a) (k_tbl b) && strs_eqb (k_on a) (k_on b) && strs_eqb (k_an a) (k_an b).

Definition con_eqb (a b : concept) : bool :=
  nat_list_eqb (c_ext_i a) (c_ext_i b) && strs_eqb (c_ext a) (c_ext b) &&
  nat_list_eqb (c_int_i a) (c_int_i b) && strs_eqb (c_int a) (c_int b) &&
  opt_Z_eqb (c_hash a) (c_hash b) && Bool.eqb (c_mono a) (c_mono b).

Definition lat_eqb (a b : lattice) : bool :=
  list_eqb con_eqb (l_concepts a) (l_concepts b) && children_same (l_children a) (l_children b) &&
  Bool.eqb (l_mono a) (l_mono b).

Definition cres_ires {A} (r : cres A) : ires A := match r with COk a => IOk a | CErr k => IErr k end.

Definition ires_bool_eqb := ires_eqb Bool.eqb.

(* ------------------------------------------------------------------ spec-side helpers *)

Definition cpair (c : concept) : list nat * list nat := (c_ext_i c, c_int_i c).
Definition pairs_of (L : lattice) := map cpair (l_concepts L).
Definition exts_of (L : lattice) := map c_ext_i (l_concepts L).
Definition swap_pair (p : list nat * list nat) := (snd p, fst p).

Definition names_at (names : list str) (idx : list nat) : list str := map (fun i => nth i names []) idx.

(* the concept names are the context's names at the concept's indexes *)
Definition names_okb (on an : list str) (L : lattice) : bool :=
  forallb (fun c => strs_eqb (c_ext c) (names_at on (c_ext_i c)) &&
                    strs_eqb (c_int c) (names_at an (c_int_i c))) (l_concepts L).

(* a lattice object is the concept lattice with concept set cs: concept set, covers *)
Definition lattice_okb (cs : list (list nat * list nat)) (L : lattice) : bool :=
  pairs_same (pairs_of L) cs &&
  children_same (l_children L) (covers_spec (exts_of L)).

(* the other three relation dictionaries, against the strict order [lt] on the indexes below n and
   the (already checked) children lists: parents = transposed children, descendants = strict
   down-sets, ancestors = strict up-sets *)
Definition rels_okb (lt le : nat -> nat -> bool) (n : nat) (ch : list (list nat)) (r : rels_d) : bool :=
  let '(par, desc, anc, leq, cle) := r in
  children_same par (map (fun i => filter (fun j => mem i (nth j ch [])) (seq 0 n)) (seq 0 n)) &&
  children_same desc (map (fun i => filter (fun j => lt j i) (seq 0 n)) (seq 0 n)) &&
  children_same anc (map (fun i => filter (fun j => lt i j) (seq 0 n)) (seq 0 n)) &&
  (* the order itself: leq_elements on the lattice and <= on the concept objects *)
  children_same leq (map (fun i => filter (fun j => le i j) (seq 0 n)) (seq 0 n)) &&
  children_same cle (map (fun i => filter (fun j => le i j) (seq 0 n)) (seq 0 n)).

Definition ext_leb (E : list (list nat)) (i j : nat) : bool := subsetb (nth i E []) (nth j E []).

Definition ext_rels_okb (L : lattice) (r : rels_d) : bool :=
  rels_okb (ext_ltb (exts_of L)) (ext_leb (exts_of L)) (length (l_concepts L)) (l_children L) r.

Definition leq_of (l : lat_d) : list (list nat) := snd (fst (rels_of l)).
(* order reversed: i <= j in the second  <->  j <= i in the first (same indexing) *)
Definition leq_reversed (a b : list (list nat)) : bool :=
  let n := length a in
  Nat.eqb (length b) n &&
  forallb (fun i => forallb (fun j => Bool.eqb (mem j (nth i b [])) (mem i (nth j a []))) (seq 0 n)) (seq 0 n).

(* guard of finding D19: no attribute name starts with 'not not ' *)
Definition names_guard (an : list str) : bool :=
  forallb (fun m => negb (starts_with (not_prefix ++ not_prefix) m)) an.

Definition guard_code (g : bool) : nat := if g then 0 else 10.
(* the finding index is attached only to a non-zero code: harness/core.py reads a bare 10 as a
   disagreement, and a case that is fine needs no excuse *)
Definition with_guard (base : nat) (g : bool) : nat :=
  match base with 0 => 0 | _ => base + guard_code g end.

(* ------------------------------------------------------------------ per-kind checks *)

Definition trans_model (b : backend) (K : ctx) : ires (ctx * ctx * ires bool) :=
  match ctx_T b K with
  | CErr k => IErr k
  | COk KT =>
      match ctx_T b KT with
      | CErr k => IErr k
      | COk KTT => IOk (KT, KTT, cres_ires (ctx_eq KTT K))
      end
  end.

Definition out3_eqb (x y : ires (ctx * ctx * ires bool)) : bool :=
  match x, y with
  | IOk (a1, a2, a3), IOk (b1, b2, b3) => ctx_eqb a1 b1 && ctx_eqb a2 b2 && ires_bool_eqb a3 b3
  | IErr a, IErr b => Nat.eqb a b
  | _, _ => false
  end.

Definition dec_out3 strs (o : ires (ctx_d * ctx_d * ires bool)) : ires (ctx * ctx * ires bool) :=
  match o with
  | IOk (a, b, c) => IOk (dec_ctx strs a, dec_ctx strs b, c)
  | IKeyErr n => IKeyErr n
  | IErr k => IErr k
  end.

Definition check_trans b strs k out : nat :=
  let K := dec_ctx strs k in
  let o := dec_out3 strs out in
  let same := out3_eqb o (trans_model b K) in
  let ok :=
    if nondegenerateb (k_tbl K) then
      match o with
      | IOk (KT, KTT, e) =>
          is_transposeb (k_tbl K) (k_tbl KT) && strs_eqb (k_on KT) (k_an K) && strs_eqb (k_an KT) (k_on K)
          && ctx_eqb KTT K && ires_bool_eqb e (IOk true)
      | _ => false
      end
    else true in     (* n x 0 tables are outside the property *)
  code_of same ok.

Definition subs (n : nat) := sublists (seq 0 n).
Definition lists_eqb := list_eqb nat_list_eqb.

Definition lists3_eqb := list_eqb lists_eqb.

Definition check_primes b t (basesA basesO repsO repsA : list (list nat)) out : nat :=
  let h := height t in let w := width t in
  let tt := transpose b t in
  match out with
  | IOk (eT, iT, iK, eK, (eTn, iTn), (eTr, iKr, iTr, eKr), (eTb, iKb, iTb, eKb)) =>
      let same :=
        lists_eqb eT (map (fun X => extension_i b tt X None) (subs h)) &&
        lists_eqb iT (map (fun Y => intention_i b tt Y None) (subs w)) &&
        lists_eqb iK (map (fun X => intention_i b t X None) (subs h)) &&
        lists_eqb eK (map (fun Y => extension_i b t Y None) (subs w)) &&
        lists_eqb eTr (map (fun X => extension_i b tt X None) repsO) &&
        lists_eqb iKr (map (fun X => intention_i b t X None) repsO) &&
        lists_eqb iTr (map (fun Y => intention_i b tt Y None) repsA) &&
        lists_eqb eKr (map (fun Y => extension_i b t Y None) repsA) &&
        lists3_eqb eTb (map (fun B => map (fun X => extension_i b tt X (Some B)) (subs h)) basesA) &&
        lists3_eqb iKb (map (fun B => map (fun X => intention_i b t X (Some B)) (subs h)) basesA) &&
        lists3_eqb iTb (map (fun B => map (fun Y => intention_i b tt Y (Some B)) (subs w)) basesO) &&
        lists3_eqb eKb (map (fun B => map (fun Y => extension_i b t Y (Some B)) (subs w)) basesO) in
      let ok :=
        lists_eqb eT (map (int t) (subs h)) && lists_eqb iT (map (ext t) (subs w)) &&
        lists_eqb eT iK && lists_eqb iT eK &&
        (* by name *)
        lists_eqb eTn (map (int t) (subs h)) && lists_eqb iTn (map (ext t) (subs w)) &&
        (* a listing with repeated entries denotes the same set *)
        lists_eqb eTr (map (int t) repsO) && lists_eqb iKr (map (int t) repsO) &&
        lists_eqb iTr (map (ext t) repsA) && lists_eqb eKr (map (ext t) repsA) &&
        (* restricted to a base set: the filter of the base, in the order of the base *)
        lists3_eqb eTb (map (fun B => map (fun X => int_spec t X B) (subs h)) basesA) &&
        lists3_eqb iTb (map (fun B => map (fun Y => ext_spec t Y B) (subs w)) basesO) &&
        lists3_eqb eTb iKb && lists3_eqb iTb eKb in
      code_of same ok
  | _ => 3
  end.

Definition check_latT (b : backend) strs k out : nat :=
  let K := dec_ctx strs k in
  let t := k_tbl K in
  match out with
  | IOk (l, lt, l2) =>
      let L := dec_lat strs l in let LT := dec_lat strs lt in let L2 := dec_lat strs l2 in
      let same := lat_eqb LT (lattice_T L) in
      let cs := concepts_spec t in
      let ok :=
        lattice_okb cs L && names_okb (k_on K) (k_an K) L && ext_rels_okb L (rels_of l) &&
        (* lattice of K.T: the swapped concept set of K, covers of its own extents *)
        lattice_okb (map swap_pair cs) L2 && ext_rels_okb L2 (rels_of l2) &&
        names_okb (k_an K) (k_on K) L2 &&
        (* L.T is that lattice: same concepts, the full cover relation (children AND parents of
           every node), descendants and ancestors, same names *)
        lattice_okb (map swap_pair cs) LT && ext_rels_okb LT (rels_of lt) &&
        names_okb (k_an K) (k_on K) LT &&
        (* order reversed: covers of L.T are the reversed covers of L on intents *)
        pairs_same (cover_pairs (exts_of LT) (l_children LT))
                   (map swap_pair (cover_pairs (map c_int_i (l_concepts L)) (l_children L))) &&
        leq_reversed (leq_of l) (leq_of lt) in
      code_of same ok
  | _ => 3
  end.

Definition compl_model (K : ctx) : ires (ctx * ctx * ires bool) :=
  match ctx_invert K with
  | CErr k => IErr k
  | COk K1 =>
      match ctx_invert K1 with
      | CErr k => IErr k
      | COk K2 => IOk (K1, K2, cres_ires (ctx_eq K2 K))
      end
  end.

Definition check_compl (b : backend) strs k out : nat :=
  let K := dec_ctx strs k in
  let o := dec_out3 strs out in
  let same := out3_eqb o (compl_model K) in
  let ok :=
    match o with
    | IOk (K1, K2, e) =>
        is_complementb (k_tbl K) (k_tbl K1) && strs_eqb (k_on K1) (k_on K) &&
        ctx_eqb K2 K && ires_bool_eqb e (IOk true)
    | _ => false
    end in
  with_guard (code_of same ok) (names_guard (k_an K)).

Definition pull_pair ps pc h w (p : list nat * list nat) := (pull ps h (fst p), pull pc w (snd p)).

Definition check_relabel (b : backend) strs k ps pc on' an' out : nat :=
  let K := dec_ctx strs k in
  let t := k_tbl K in
  let h := height t in let w := width t in
  let t' := relabel_table ps pc t in
  match out with
  | IOk (l1, l2, (k3, l3, e3, i3)) =>
      let L1 := dec_lat strs l1 in let L2 := dec_lat strs l2 in let L3 := dec_lat strs l3 in
      let K3 := dec_ctx strs k3 in
      let cs' := concepts_spec t' in
      (* reference construction on the relabelled table; the model of K[ps, pc] *)
      let same := lattice_okb cs' L2 &&
                  match ctx_getitem b K ps pc with COk Km => ctx_eqb K3 Km | CErr _ => false end in
      let ok :=
        (* second route: K[ps, pc] is the spec relabelling — table, names, derivations, lattice *)
        table_eqb (k_tbl K3) t' &&
        strs_eqb (k_on K3) (names_at (k_on K) ps) && strs_eqb (k_an K3) (names_at (k_an K) pc) &&
        lists_eqb e3 (map (ext t') (subs w)) && lists_eqb i3 (map (int t') (subs h)) &&
        lattice_okb cs' L3 && ext_rels_okb L3 (rels_of l3) && names_okb (k_on K3) (k_an K3) L3 &&
        is_permb h ps && is_permb w pc &&
        lattice_okb (concepts_spec t) L1 && names_okb (k_on K) (k_an K) L1 &&
        ext_rels_okb L1 (rels_of l1) && ext_rels_okb L2 (rels_of l2) &&
        names_okb (dec strs on') (dec strs an') L2 &&
        pairs_same (pairs_of L2) (map (pull_pair ps pc h w) (pairs_of L1)) &&
        pairs_same (cover_pairs (exts_of L2) (l_children L2))
                   (map (fun p => (pull ps h (fst p), pull ps h (snd p)))
                        (cover_pairs (exts_of L1) (l_children L1))) in
      code_of same ok
  | _ => 3
  end.

Definition le_model (L : lattice) : list (list (ires bool)) :=
  map (fun a => map (fun c => cres_ires (concept_le a c)) (l_concepts L)) (l_concepts L).

Definition le_matrix_eqb := list_eqb (list_eqb ires_bool_eqb).

Definition le_at (le : list (list (ires bool))) (i j : nat) : bool :=
  match nth j (nth i le []) (IErr 0) with IOk v => v | _ => false end.

Definition check_mono (b : backend) strs k h out : nat :=
  let K := dec_ctx strs k in
  let t := k_tbl K in
  match out with
  | IOk (lc, m, le, mt) =>
      let Lc := dec_lat strs lc in let M := dec_lat strs m in let MT := dec_lat strs mt in
      let Mm := monotone_of K h Lc in
      let same := lat_eqb M Mm && le_matrix_eqb le (le_model Mm) && lat_eqb MT (lattice_T M) in
      let n := length (l_concepts M) in
      let lt := fun j i => if le_at le j i then negb (le_at le i j) else false in
      let ok :=
        (* exactly the monotone pairs *)
        pairs_same (pairs_of M) (mono_pairs_spec t) &&
        (* <= is reversed extent inclusion, never raises *)
        le_matrix_eqb le (map (fun a => map (fun c => IOk (subsetb (c_ext_i c) (c_ext_i a)))
                                            (l_concepts M)) (l_concepts M)) &&
        (* children_dict = the lower covers of its own <= *)
        children_same (l_children M) (map (lower_covers lt n) (seq 0 n)) &&
        rels_okb lt (le_at le) n (l_children M) (rels_of m) &&
        lattice_okb (concepts_spec (tbl_invert t)) Lc && ext_rels_okb Lc (rels_of lc) &&
        l_mono M && forallb c_mono (l_concepts M) &&
        (* M.T: extents and intents exchanged, order reversed, and an ordinary lattice on its own
           extents: children = covers, the relation dictionaries, leq_elements and the concepts' <= all
           agree with inclusion of the (new) extents *)
        pairs_same (pairs_of MT) (map swap_pair (pairs_of M)) &&
        leq_reversed (leq_of m) (leq_of mt) &&
        children_same (l_children MT) (covers_spec (exts_of MT)) && ext_rels_okb MT (rels_of mt) &&
        names_okb (k_on K) (k_an K) M in
      with_guard (code_of same ok) (names_guard (k_an K))
  | _ => 3
  end.

Definition c06_check (c : c06_case) : nat :=
  match c with
  | CTrans b strs k out => check_trans b strs k out
  | CPrimes b t bA bO rO rA out => check_primes b t bA bO rO rA out
  | CLatT b strs k out => check_latT b strs k out
  | CCompl b strs k out => check_compl b strs k out
  | CRelabel b strs k ps pc on' an' out => check_relabel b strs k ps pc on' an' out
  | CMono b strs k h out => check_mono b strs k h out
  end.

(* what the model and the spec say, for replay files *)
Inductive c06_shown :=
| STrans (m : ires (ctx * ctx * ires bool))
| SPrimes (eT iT : list (list nat))
| SLat (lt : option lattice) (spec_concepts : list (list nat * list nat))
| SMono (m : option lattice) (spec_pairs : list (list nat * list nat)).

Definition c06_show (c : c06_case) : c06_shown :=
  match c with
  | CTrans b strs k _ => STrans (trans_model b (dec_ctx strs k))
  | CPrimes b t _ _ _ _ _ => SPrimes (map (int t) (subs (height t))) (map (ext t) (subs (width t)))
  | CLatT b strs k out =>
      SLat (match out with IOk (l, _, _) => Some (lattice_T (dec_lat strs l)) | _ => None end)
           (map swap_pair (concepts_spec (fst (fst k))))
  | CCompl b strs k _ => STrans (compl_model (dec_ctx strs k))
  | CRelabel b strs k ps pc _ _ _ => SLat None (concepts_spec (relabel_table ps pc (fst (fst k))))
  | CMono b strs k h out =>
      SMono (match out with IOk (lc, _, _, _) => Some (monotone_of (dec_ctx strs k) h (dec_lat strs lc)) | _ => None end)
            (mono_pairs_spec (fst (fst k)))
  end.

(* Corr/C02.v — executable check for one C02 case: run the model of the concept miners and the
   spec enumeration of all concepts on the case's table and compare both with what the
   implementation returned. *)
From FCA Require Export Corr.Common Model.ConceptConstruction Model.ConceptConstructionStack
     Model.FromContextLattice Spec.Closure Spec.LatticeOrderSpec.

Record c02_case := {
  c_backend : backend;
  c_table : table;
  c_onames : list nat;
  c_anames : list nat;
  c_algo : nat;
    (* 0 from_context(K)            1 from_context(K,'CbO')     2 from_context(K,'Lindig',iterate_extents)
       3 from_context(K,'Sofia',L_max)
       4 close_by_one(K) [sequence] 5 close_by_one_objectwise(K) [sequence]
       6 close_by_one_objectwise_fbarray(K) [sequence]
       7 sofia(K,L_max)             8 lindig_algorithm(K,iterate_extents)
       9 FormalConcept.from_objects(arg by index, K, is_extent=flag)
       10 FormalConcept.from_objects(arg by name, K, is_extent=flag)
       11..14 the LATTICE from_context returns (11 default, 12 'CbO', 13 'Lindig' iterate_extents,
              14 'Sofia' L_max): c_impl lists the concepts in the lattice's order, c_rel holds
              (children, parents, descendants, ancestors) of every index, c_top / c_bot the
              cached top / bottom index *)
  c_ie : option bool;
  c_lmax : nat;
  c_arg : list nat;
  c_flag : bool;
  c_impl : ires (list fconcept);
  c_rel : list (list nat * list nat * list nat * list nat);
  c_top : option nat;
  c_bot : option nat
}.

Definition ctx_of (c : c02_case) : context :=
  mkCtx (c_backend c) (c_table c) (c_onames c) (c_anames c).

Definition fc_eqb (a b : fconcept) : bool :=
  nat_list_eqb (c_ext_i a) (c_ext_i b) && nat_list_eqb (c_ext a) (c_ext b) &&
  nat_list_eqb (c_int_i a) (c_int_i b) && nat_list_eqb (c_int a) (c_int b).

Definition fc_mem (x : fconcept) (l : list fconcept) : bool := existsb (fc_eqb x) l.

Fixpoint fc_nodupb (l : list fconcept) : bool :=
  match l with [] => true | x :: l' => negb (fc_mem x l') && fc_nodupb l' end.

(* equal as multisets, given that one side is duplicate-free *)
Definition fc_perm_eqb (a b : list fconcept) : bool :=
  Nat.eqb (length a) (length b) && forallb (fun x => fc_mem x b) a &&
  forallb (fun x => fc_mem x a) b && fc_nodupb a.

Definition of_opt (o : option (list fconcept)) : ires (list fconcept) :=
  match o with Some l => IOk l | None => IErr 99 end.   (* out of fuel / outside the exact regime *)

Definition c02_model (c : c02_case) : ires (list fconcept) :=
  let K := ctx_of c in
  match c_algo c with
  | 0 => of_opt (from_context_concepts K 0 None 0)
  | 1 => of_opt (from_context_concepts K 1 None 0)
  | 2 => of_opt (from_context_concepts K 2 (c_ie c) 0)
  | 3 => of_opt (from_context_concepts K 3 None (c_lmax c))
  | 4 => IOk (close_by_one K)
  | 5 => IOk (cbo_objectwise K)
  | 6 => IOk (cbo_fbarray K)
  | 7 => of_opt (sofia K (c_lmax c))
  | 8 => of_opt (lindig K (c_ie c))
  | 9 => IOk [from_objects K (c_arg c) (c_flag c)]
  | 10 => match from_objects_named K (c_arg c) (c_flag c) with
          | Some x => IOk [x]
          | None => IErr 2           (* ValueError: name not in object_names *)
          end
  | 11 => of_opt (from_context_concepts K 0 None 0)
  | 12 => of_opt (from_context_concepts K 1 None 0)
  | 13 => of_opt (from_context_concepts K 2 (c_ie c) 0)
  | _ => of_opt (from_context_concepts K 3 None (c_lmax c))
  end.

(* the yielded sequence is compared exactly for the generators and from_objects, as a multiset
   for the algorithms whose listing order depends on Python set iteration / is re-sorted *)
Definition ordered_algo (a : nat) : bool :=
  match a with 4 | 5 | 6 | 9 | 10 => true | _ => false end.

(* the literal explicit-stack transcription of the CbO generators (Model/ConceptConstructionStack.v,
   fuel n*2^n+1 which Lemmas/C02_Stack.v proves sufficient) must yield the implementation's
   sequence as well *)
Definition stack_model (c : c02_case) : option (stack_res fconcept) :=
  let K := ctx_of c in
  let fuel := stack_fuel (Nat.max (k_n K) (k_w K)) in
  match c_algo c with
  | 4 => Some (close_by_one_stack K fuel)
  | 5 => Some (cbo_objectwise_stack K fuel)
  | 6 => Some (cbo_fbarray_stack K fuel)
  | _ => None
  end.

Definition stack_agrees (c : c02_case) (i : list fconcept) : bool :=
  match stack_model c with
  | None => true
  | Some (SDone ys) => list_eqb fc_eqb i ys
  | Some SOutOfFuel => false
  end.

(* ---- the lattice runs (11..14): the model of Model/FromContextLattice.v with a closure-loop
   budget of 2^12 rounds *)
Definition lattice_algo (a : nat) : option nat :=
  match a with 11 => Some 0 | 12 => Some 1 | 13 => Some 2 | 14 => Some 3 | _ => None end.

Definition opt_nat_eqb (a b : option nat) : bool :=
  match a, b with Some x, Some y => Nat.eqb x y | None, None => true | _, _ => false end.

Definition rel_at (c : c02_case) (i : nat) := nth i (c_rel c) ([], [], [], []).
Definition r_children (r : list nat * list nat * list nat * list nat) := fst (fst (fst r)).
Definition r_parents (r : list nat * list nat * list nat * list nat) := snd (fst (fst r)).
Definition r_descendants (r : list nat * list nat * list nat * list nat) := snd (fst r).
Definition r_ancestors (r : list nat * list nat * list nat * list nat) := snd r.

Definition concept_eqb (p q : list nat * list nat) : bool :=
  nat_list_eqb (fst p) (fst q) && nat_list_eqb (snd p) (snd q).

Definition lattice_same (c : c02_case) (a : nat) (i : list fconcept) : bool :=
  match from_context_lattice (ctx_of c) a (c_ie c) (c_lmax c) 12 with
  | LView v =>
      list_eqb concept_eqb (map pair_c i) (lv_concepts v) &&
      (* the model's name views are the images of its index views (views_agree) *)
      forallb (fun x => nat_list_eqb (c_ext x) (map (fun g => nth g (c_onames c) 0) (c_ext_i x)) &&
                        nat_list_eqb (c_int x) (map (fun m => nth m (c_anames c) 0) (c_int_i x))) i &&
      Nat.eqb (length (c_rel c)) (length i) &&
      forallb (fun k => same_setb (r_children (rel_at c k)) (lv_children v k) &&
                        same_setb (r_parents (rel_at c k)) (lv_parents v k) &&
                        same_setb (r_descendants (rel_at c k)) (lv_descendants v k) &&
                        same_setb (r_ancestors (rel_at c k)) (lv_ancestors v k))
              (seq 0 (length i)) &&
      opt_nat_eqb (c_top c) (lv_top v) && opt_nat_eqb (c_bot c) (lv_bottom v)
  | _ => false
  end.

Definition c02_same (c : c02_case) : bool :=
  match c_impl c, c02_model c with
  | IOk i, IOk m =>
      match lattice_algo (c_algo c) with
      | Some a => lattice_same c a i
      | None => if ordered_algo (c_algo c) then list_eqb fc_eqb i m && stack_agrees c i
                else fc_perm_eqb i m
      end
  | IErr a, IErr b => Nat.eqb a b
  | _, _ => false
  end.

(* ---- the spec side, independent of the model of the code *)

Fixpoint nat_nodupb (l : list nat) : bool :=
  match l with [] => true | x :: l' => negb (mem x l') && nat_nodupb l' end.

Definition pair_eqb (p q : list nat * list nat) : bool :=
  nat_list_eqb (fst p) (fst q) && nat_list_eqb (snd p) (snd q).
Definition pair_mem (p : list nat * list nat) (l : list (list nat * list nat)) : bool :=
  existsb (pair_eqb p) l.
Fixpoint pair_nodupb (l : list (list nat * list nat)) : bool :=
  match l with [] => true | x :: l' => negb (pair_mem x l') && pair_nodupb l' end.

(* the name views are the position-wise images of the index views (names are positional labels and
   may repeat: a homonym then appears as a repeated name), and the index views are duplicate-free
   and in range *)
Definition same_view (names idxs : list nat) (name_of : nat -> nat) : bool :=
  nat_list_eqb names (map name_of idxs).

Definition views_ok (c : c02_case) (x : fconcept) : bool :=
  same_view (c_ext x) (c_ext_i x) (fun g => nth g (c_onames c) 0) &&
  same_view (c_int x) (c_int_i x) (fun m => nth m (c_anames c) 0) &&
  in_rangeb (height (c_table c)) (c_ext_i x) && in_rangeb (width (c_table c)) (c_int_i x) &&
  nat_nodupb (c_ext_i x) && nat_nodupb (c_int_i x).

Definition pair_of (c : c02_case) (x : fconcept) : list nat * list nat :=
  (canon_set (height (c_table c)) (c_ext_i x), canon_set (width (c_table c)) (c_int_i x)).

(* every pair (A, B) with A' = B, B' = A exactly once and nothing else: every returned pair is a
   concept, no pair is returned twice, and the closure (S'', S') of every one of the 2^n object
   subsets S is among them.  (Lemmas/C02.v, [exactly_all_concepts_spec]: this holds iff the
   returned pairs are a duplicate-free listing of [concepts_spec]; the quadratic de-duplication
   inside [concepts_spec] is avoided here because it is evaluated once per case.) *)
Definition exactly_all_concepts (c : c02_case) (l : list fconcept) : bool :=
  let t := c_table c in
  let ps := map (pair_of c) l in
  forallb (views_ok c) l &&
  forallb (fun p => is_conceptb t (fst p) (snd p)) ps &&
  pair_nodupb ps &&
  forallb (fun S => pair_mem (cl_obj t S, int t S) ps) (sublists (all_objs t)).

Fixpoint spec_first_index (k : nat) (names : list nat) (x : nat) : option nat :=
  match names with
  | [] => None
  | y :: ys => if Nat.eqb x y then Some k else spec_first_index (S k) ys x
  end.
Fixpoint spec_lookup (names xs : list nat) : option (list nat) :=
  match xs with
  | [] => Some []
  | x :: xs' => match spec_first_index 0 names x, spec_lookup names xs' with
                | Some i, Some l => Some (i :: l) | _, _ => None end
  end.

(* from_objects: (A'', A') for is_extent = False; (A, A') as given for is_extent = True *)
Definition from_objects_ok (c : c02_case) (A : list nat) (l : list fconcept) : bool :=
  match l with
  | [x] =>
      views_ok c x &&
      nat_list_eqb (c_int_i x) (int (c_table c) A) &&
      (if c_flag c then nat_list_eqb (c_ext_i x) A
       else nat_list_eqb (c_ext_i x) (cl_obj (c_table c) A))
  | _ => false
  end.

(* the lattice: exactly the concepts, listed by non-increasing extent size, top first and bottom
   last, and the four relations are those of extent inclusion (Spec/LatticeOrderSpec.v) *)
Definition lattice_spec_ok (c : c02_case) (l : list fconcept) : bool :=
  let exts := map c_ext_i l in
  exactly_all_concepts c l &&
  sizes_sortedb exts &&
  opt_nat_eqb (c_top c) (Some 0) && opt_nat_eqb (c_bot c) (Some (length l - 1)) &&
  Nat.eqb (length (c_rel c)) (length l) &&
  forallb (fun k => same_setb (r_children (rel_at c k)) (spec_children exts k) &&
                    same_setb (r_parents (rel_at c k)) (spec_parents exts k) &&
                    same_setb (r_descendants (rel_at c k)) (spec_descendants exts k) &&
                    same_setb (r_ancestors (rel_at c k)) (spec_ancestors exts k))
          (seq 0 (length l)).

Definition c02_spec_ok (c : c02_case) : bool :=
  match c_algo c with
  | 11 | 12 | 13 | 14 => match c_impl c with IOk l => lattice_spec_ok c l | _ => false end
  | 9 => match c_impl c with IOk l => from_objects_ok c (c_arg c) l | _ => false end
  | 10 => match spec_lookup (c_onames c) (c_arg c), c_impl c with
          | Some A, IOk l => from_objects_ok c A l
          | None, IErr 2 => true
          | _, _ => false
          end
  | _ => match c_impl c with IOk l => exactly_all_concepts c l | _ => false end
  end.

Definition c02_check (c : c02_case) : nat := code_of (c02_same c) (c02_spec_ok c).

Definition lattice_model (c : c02_case) :=
  match lattice_algo (c_algo c) with
  | Some a => match from_context_lattice (ctx_of c) a (c_ie c) (c_lmax c) 12 with
              | LView v => Some (lv_concepts v, map (lv_children v) (seq 0 (length (lv_concepts v))),
                                 map (lv_parents v) (seq 0 (length (lv_concepts v))), lv_top v, lv_bottom v)
              | _ => None end
  | None => None
  end.
Definition c02_show (c : c02_case) :=
  (c02_model c, stack_model c, lattice_model c, concepts_spec (c_table c), c02_same c, c02_spec_ok c).

(* Corr/C02.v — executable check for one C02 case: run the model of the concept miners and the
   spec enumeration of all concepts on the case's table and compare both with what the
   implementation returned. *)
From FCA Require Export Corr.Common Model.ConceptConstruction Spec.Closure.

Record c02_case := {
  c_backend : backend;
  c_table : table;
  c_onames : list nat;
  c_anames : list nat;
  c_algo : nat;
    (* 0 from_context(K)            1 from_context(K,'CbO')     2 from_context(K,'Lindig',iterate_extents)
       3 from_context(K,'Sofia',L_max)
       4 close_by_one(K) [sequence] 5 close_by_one_objectwise(K) [sequence]
       6 close_by_one_objectwise_fbarray(K) [sequence]
       7 sofia(K,L_max)             8 lindig_algorithm(K,iterate_extents)
       9 FormalConcept.from_objects(arg by index, K, is_extent=flag)
       10 FormalConcept.from_objects(arg by name, K, is_extent=flag) *)
  c_ie : option bool;
  c_lmax : nat;
  c_arg : list nat;
  c_flag : bool;
  c_impl : ires (list fconcept)
}.

Definition ctx_of (c : c02_case) : context :=
  mkCtx (c_backend c) (c_table c) (c_onames c) (c_anames c).

Definition fc_eqb (a b : fconcept) : bool :=
  nat_list_eqb (c_ext_i a) (c_ext_i b) && nat_list_eqb (c_ext a) (c_ext b) &&
  nat_list_eqb (c_int_i a) (c_int_i b) && nat_list_eqb (c_int a) (c_int b).

Definition fc_mem (x : fconcept) (l : list fconcept) : bool := existsb (fc_eqb x) l.

Fixpoint fc_nodupb (l : list fconcept) : bool :=
  match l with [] => true | x :: l' => negb (fc_mem x l') && fc_nodupb l' end.

(* equal as multisets, given that one side is duplicate-free *)
Definition fc_perm_eqb (a b : list fconcept) : bool :=
  Nat.eqb (length a) (length b) && forallb (fun x => fc_mem x b) a &&
  forallb (fun x => fc_mem x a) b && fc_nodupb a.

Definition of_opt (o : option (list fconcept)) : ires (list fconcept) :=
  match o with Some l => IOk l | None => IErr 99 end.   (* out of fuel / outside the exact regime *)

Definition c02_model (c : c02_case) : ires (list fconcept) :=
  let K := ctx_of c in
  match c_algo c with
  | 0 => of_opt (from_context_concepts K 0 None 0)
  | 1 => of_opt (from_context_concepts K 1 None 0)
  | 2 => of_opt (from_context_concepts K 2 (c_ie c) 0)
  | 3 => of_opt (from_context_concepts K 3 None (c_lmax c))
  | 4 => IOk (close_by_one K)
  | 5 => IOk (cbo_objectwise K)
  | 6 => IOk (cbo_fbarray K)
  | 7 => of_opt (sofia K (c_lmax c))
  | 8 => of_opt (lindig K (c_ie c))
  | 9 => IOk [from_objects K (c_arg c) (c_flag c)]
  | _ => match from_objects_named K (c_arg c) (c_flag c) with
         | Some x => IOk [x]
         | None => IErr 2           (* ValueError: name not in object_names *)
         end
  end.

(* the yielded sequence is compared exactly for the generators and from_objects, as a multiset
   for the algorithms whose listing order depends on Python set iteration / is re-sorted *)
Definition ordered_algo (a : nat) : bool :=
  match a with 4 | 5 | 6 | 9 | 10 => true | _ => false end.

Definition c02_same (c : c02_case) : bool :=
  match c_impl c, c02_model c with
  | IOk i, IOk m => if ordered_algo (c_algo c) then list_eqb fc_eqb i m else fc_perm_eqb i m
  | IErr a, IErr b => Nat.eqb a b
  | _, _ => false
  end.

(* ---- the spec side, independent of the model of the code *)

Fixpoint nat_nodupb (l : list nat) : bool :=
  match l with [] => true | x :: l' => negb (mem x l') && nat_nodupb l' end.

Definition pair_eqb (p q : list nat * list nat) : bool :=
  nat_list_eqb (fst p) (fst q) && nat_list_eqb (snd p) (snd q).
Definition pair_mem (p : list nat * list nat) (l : list (list nat * list nat)) : bool :=
  existsb (pair_eqb p) l.
Fixpoint pair_nodupb (l : list (list nat * list nat)) : bool :=
  match l with [] => true | x :: l' => negb (pair_mem x l') && pair_nodupb l' end.

(* the name views denote the same sets as the index views (as sets: equal length, mutual
   inclusion), and the index views are duplicate-free and in range *)
Definition same_view (names idxs : list nat) (name_of : nat -> nat) : bool :=
  Nat.eqb (length names) (length idxs) && same_setb names (map name_of idxs).

Definition views_ok (c : c02_case) (x : fconcept) : bool :=
  same_view (c_ext x) (c_ext_i x) (fun g => nth g (c_onames c) 0) &&
  same_view (c_int x) (c_int_i x) (fun m => nth m (c_anames c) 0) &&
  in_rangeb (height (c_table c)) (c_ext_i x) && in_rangeb (width (c_table c)) (c_int_i x) &&
  nat_nodupb (c_ext_i x) && nat_nodupb (c_int_i x).

Definition pair_of (c : c02_case) (x : fconcept) : list nat * list nat :=
  (canon_set (height (c_table c)) (c_ext_i x), canon_set (width (c_table c)) (c_int_i x)).

(* every pair (A, B) with A' = B, B' = A exactly once and nothing else: every returned pair is a
   concept, no pair is returned twice, and the closure (S'', S') of every one of the 2^n object
   subsets S is among them.  (Lemmas/C02.v, [exactly_all_concepts_spec]: this holds iff the
   returned pairs are a duplicate-free listing of [concepts_spec]; the quadratic de-duplication
   inside [concepts_spec] is avoided here because it is evaluated once per case.) *)
Definition exactly_all_concepts (c : c02_case) (l : list fconcept) : bool :=
  let t := c_table c in
  let ps := map (pair_of c) l in
  forallb (views_ok c) l &&
  forallb (fun p => is_conceptb t (fst p) (snd p)) ps &&
  pair_nodupb ps &&
  forallb (fun S => pair_mem (cl_obj t S, int t S) ps) (sublists (all_objs t)).

Fixpoint spec_first_index (k : nat) (names : list nat) (x : nat) : option nat :=
  match names with
  | [] => None
  | y :: ys => if Nat.eqb x y then Some k else spec_first_index (S k) ys x
  end.
Fixpoint spec_lookup (names xs : list nat) : option (list nat) :=
  match xs with
  | [] => Some []
  | x :: xs' => match spec_first_index 0 names x, spec_lookup names xs' with
                | Some i, Some l => Some (i :: l) | _, _ => None end
  end.

(* from_objects: (A'', A') for is_extent = False; (A, A') as given for is_extent = True *)
Definition from_objects_ok (c : c02_case) (A : list nat) (l : list fconcept) : bool :=
  match l with
  | [x] =>
      views_ok c x &&
      nat_list_eqb (c_int_i x) (int (c_table c) A) &&
      (if c_flag c then nat_list_eqb (c_ext_i x) A
       else nat_list_eqb (c_ext_i x) (cl_obj (c_table c) A))
  | _ => false
  end.

Definition c02_spec_ok (c : c02_case) : bool :=
  match c_algo c with
  | 9 => match c_impl c with IOk l => from_objects_ok c (c_arg c) l | _ => false end
  | 10 => match spec_lookup (c_onames c) (c_arg c), c_impl c with
          | Some A, IOk l => from_objects_ok c A l
          | None, IErr 2 => true
          | _, _ => false
          end
  | _ => match c_impl c with IOk l => exactly_all_concepts c l | _ => false end
  end.

Definition c02_check (c : c02_case) : nat := code_of (c02_same c) (c02_spec_ok c).

Definition c02_show (c : c02_case) :=
  (c02_model c, concepts_spec (c_table c), c02_same c, c02_spec_ok c).

(* Corr/C13.v — executable check for one C13 case.  A case is one column of one pattern
   structure together with a list of object subsets (arguments of intention_i), a list of
   descriptions and a base set (arguments of extension_i), and everything the implementation
   answered: the intentions, the extensions, the binary-attribute view and n_bin_attrs; for the
   numpy engine also what the pure-python engine answered on the same input. *)
From FCA Require Export Corr.Common Model.PatternStructure Spec.PatternSpec.

Record c13_case := {
  k_col : column;
  k_raw : option raw_col;              (* the cells the column was built from, if checked *)
  k_subsets : list (list nat);
  k_descs : list desc;
  k_base : option (list nat);
  k_cands : list desc;                 (* every description over the value grid, and the empty one *)
  k_err : nat;                         (* 0 = the implementation raised nothing *)
  k_ints : list desc;
  k_exts : list (list nat);
  k_bins : list (desc * list bool);
  k_nbin : nat;
  k_twin : option (list desc * list (list nat) * list (desc * list bool) * nat)
}.

Definition bin_eqb (a b : desc * list bool) : bool :=
  desc_eqb (fst a) (fst b) && bool_list_eqb (snd a) (snd b).

Definition col_data_iv (c : column) : option (list iv) :=
  match c with CInterval d | CIntervalNp d => Some d | _ => None end.

Definition opt_ivlist_eqb (a b : option (list iv)) : bool :=
  match a, b with
  | Some x, Some y => list_eqb iv_eqb x y
  | None, None => true
  | _, _ => false
  end.

(* --- model side *)
Definition c13_model_ok (c : c13_case) : bool :=
  let col := k_col c in
  match k_raw c with
  | Some (RawIv raw) =>
      match transform_iv raw with
      | None => Nat.eqb (k_err c) 7                      (* TypeError *)
      | Some d => Nat.eqb (k_err c) 0 && opt_ivlist_eqb (col_data_iv col) (Some d)
      end
  | Some (RawSet raw) =>
      Nat.eqb (k_err c) 0 &&
      match col with CSet d => list_eqb same_setb d (transform_set raw) | _ => false end
  | Some (RawAttr raw) =>
      Nat.eqb (k_err c) 0 &&
      match col with CAttr d => bool_list_eqb d (transform_attr raw) | _ => false end
  | None => Nat.eqb (k_err c) 0
  end
  && (if Nat.eqb (k_err c) 0 then
        list_eqb desc_eqb (k_ints c) (map (ps_intention col) (k_subsets c))
        && list_eqb nat_list_eqb (k_exts c) (map (fun d => ps_extension col d (k_base c)) (k_descs c))
        && list_eqb bin_eqb (k_bins c) (ps_bin_attrs col)
        && Nat.eqb (k_nbin c) (ps_n_bin_attrs col)
      else true).

(* --- spec side *)
Definition ext_all (col : column) (d : desc) : list nat := ext_ps_spec col d (all_rows col).

(* the intention of A: covers all of A, and its extension lies inside the extension of every
   candidate description that covers all of A *)
Definition most_specific (col : column) (cands : list desc) (A : list nat) (dA : desc) : bool :=
  desc_matches col dA
  && subsetb A (ext_all col dA)
  && forallb (fun d' => implb (subsetb A (ext_all col d')) (subsetb (ext_all col dA) (ext_all col d')))
             cands.

Definition int_spec_ok (col : column) (cands : list desc) (A : list nat) (dA : desc) : bool :=
  match A with
  | [] => desc_eqb dA (empty_convention col)
  | _ => most_specific col cands A dA
  end.

Definition bin_spec_ok (col : column) (p : desc * list bool) : bool :=
  desc_matches col (fst p)
  && bool_list_eqb (snd p) (map (fun g => mem g (ext_all col (fst p))) (all_rows col)).

(* transform: every raw cell of a legal kind becomes its pair; an illegal one is rejected *)
Definition raw_spec_ok (c : c13_case) : bool :=
  match k_raw c with
  | None => Nat.eqb (k_err c) 0
  | Some (RawIv raw) =>
      if forallb (fun r => match r with RNum _ | RSeq [_] | RSeq [_; _] => true | _ => false end) raw
      then Nat.eqb (k_err c) 0 &&
           match col_data_iv (k_col c) with
           | Some d => forallb2 (fun r v => match r with
                                            | RNum x | RSeq [x] => iv_eqb v (x, x)
                                            | RSeq [a; b] => iv_eqb v (a, b)
                                            | _ => false end) raw d
           | None => false
           end
      else Nat.eqb (k_err c) 7
  | Some (RawSet raw) =>
      Nat.eqb (k_err c) 0 &&
      match k_col c with
      | CSet d => forallb2 (fun r v => match r with
                                       | RAtom x => same_setb v [x]
                                       | RIter l => same_setb v l end) raw d
      | _ => false
      end
  | Some (RawAttr raw) =>
      Nat.eqb (k_err c) 0 &&
      match k_col c with
      | CAttr d => forallb2 (fun r v => Bool.eqb v (match r with 0 => false | _ => true end)) raw d
      | _ => false
      end
  end.

Definition twin_ok (c : c13_case) : bool :=
  match k_twin c with
  | None => true
  | Some (ti, te, tb, tn) =>
      list_eqb desc_eqb (k_ints c) ti && list_eqb nat_list_eqb (k_exts c) te
      && list_eqb bin_eqb (k_bins c) tb && Nat.eqb (k_nbin c) tn
  end.

Definition c13_spec_ok (c : c13_case) : bool :=
  let col := k_col c in
  raw_spec_ok c
  && (if Nat.eqb (k_err c) 0 then
        forallb2 (int_spec_ok col (k_cands c)) (k_subsets c) (k_ints c)
        && forallb2 (fun d e => nat_list_eqb e (ext_ps_spec col d (default (all_rows col) (k_base c))))
                    (k_descs c) (k_exts c)
        && forallb (bin_spec_ok col) (k_bins c)
        && Nat.eqb (k_nbin c) (length (k_bins c))
        && twin_ok c
      else true).

Definition c13_check (c : c13_case) : nat := code_of (c13_model_ok c) (c13_spec_ok c).

Definition c13_show (c : c13_case) :=
  let col := k_col c in
  (map (ps_intention col) (k_subsets c),
   map (fun d => ps_extension col d (k_base c)) (k_descs c),
   ps_bin_attrs col, ps_n_bin_attrs col,
   (c13_model_ok c, raw_spec_ok c,
    forallb2 (int_spec_ok col (k_cands c)) (k_subsets c) (k_ints c),
    forallb2 (fun d e => nat_list_eqb e (ext_ps_spec col d (default (all_rows col) (k_base c))))
             (k_descs c) (k_exts c),
    forallb (bin_spec_ok col) (k_bins c), twin_ok c)).

(* Corr/C03.v — executable check of one C03 case: a lattice built by the implementation
   (its concept list in listing order plus every observed answer) against the model of the
   code (Model/LatticeOrder.v) and against the specification (Spec/LatticeOrderSpec.v). *)
From FCA Require Export Corr.Common Model.LatticeOrder Spec.LatticeOrderSpec.

Record c03_round := {
  k2_desc : list (list nat); k2_anc : list (list nat);
  k2_chi : list (list nat); k2_par : list (list nat);
  k2_leq : list (list bool);
  k2_top : option nat; k2_bot : option nat;
  k2_queries : list (nat * list nat * option nat);
  k2_chains : option (list (list nat))
}.

(* what the lattice answered right after one step of a mutation history (the derived observers were
   also asked right BEFORE the step, on the same object): its concept list at that moment, children /
   parents of every index, top / bottom, get_chains() *)
Record c03_snap := {
  s_concepts : list concept;
  s_chi : list (list nat); s_par : list (list nat);
  s_top : option nat; s_bot : option nat;
  s_chains : option (list (list nat))
}.

Record c03_case := {
  k_table : table;
  k_algo : nat;                 (* build path.  from_context: 0 CbO  1 Lindig  2 default (= Lindig)  3 Sofia;
                                   4 lindig_algorithm's own lattice  5 ConceptLattice(shuffled list)
                                   6 grown with add() from [bottom, top];  +10: then mutated by a
                                   remove / add history (the listing is the CURRENT concept list) *)
  k_err : nat;                  (* 0 = the implementation raised nothing *)
  k_concepts : list concept;    (* (extent_i, intent_i) in listing order *)
  k_pre : option (list concept * assoc);   (* Lindig: lindig_algorithm's lattice before re-sorting:
                                              its concept list and its children_dict *)
  k_pre_leq : list (list bool); (* leq_elements of that un-resorted lattice *)
  k_desc : list (list nat); k_anc : list (list nat);
  k_chi : list (list nat); k_par : list (list nat);          (* per index, ascending *)
  k_leq : list (list bool);
  k_top : option nat; k_bot : option nat;
  k_tops : list nat; k_bots : list nat;
  k_queries : list (nat * list nat * option nat);  (* 0 meet 1 join 2 infimum 3 supremum *)
  k_chains : option (list (list nat));
  k_chains_sorted : option (list (list nat));   (* _get_chains(is_concepts_sorted=True); sorted listings only *)
  (* second round, asked after the aliasing probe (returned sets mutated in place, add_concept /
     remove_concept run on shallow copies of children_dict / parents_dict): the lattice is
     immutable for its users, so every answer must be what it was.  None: the harness found the
     second round equal to the first, value by value (it then ships nothing); otherwise the second
     round is shipped and compared here *)
  k_round2 : option c03_round;
  k_snaps : list c03_snap
}.

(* concepts may be listed with their extent_i / intent_i in any order (from_objects(is_extent=True),
   hand-made FormalConcept, JSON with permuted Inds): the MODEL runs on the listing as it is, the
   SPECIFICATION speaks about sets, i.e. about the ascending listing *)
Definition canon_concept (c : concept) : concept := (sort_nat (fst c), sort_nat (snd c)).

Definition concept_eqb (c d : concept) : bool :=
  nat_list_eqb (fst c) (fst d) && nat_list_eqb (snd c) (snd d).
Definition lists_eqb := list_eqb nat_list_eqb.
Definition opt_nat_eqb (a b : option nat) : bool :=
  match a, b with Some x, Some y => Nat.eqb x y | None, None => true | _, _ => false end.
Definition opt_chains_eqb (a b : option (list (list nat))) : bool :=
  match a, b with Some x, Some y => lists_eqb x y | None, None => true | _, _ => false end.
Definition canon (n : nat) (l : list nat) : list nat := filter (fun x => mem x l) (seq 0 n).
Definition per_index (n : nat) (f : nat -> list nat) : list (list nat) :=
  map (fun i => canon n (f i)) (seq 0 n).
Definition matrix (n : nat) (f : nat -> nat -> bool) : list (list bool) :=
  map (fun i => map (f i) (seq 0 n)) (seq 0 n).
Definition matrix_eqb := list_eqb bool_list_eqb.

(* the answers a lattice gives, from its concept list and its descendants / ancestors /
   children / parents functions *)
Definition queries_match (n : nat) (down up : nat -> list nat)
           (qs : list (nat * list nat * option nat)) : bool :=
  forallb (fun q => match q with
                    | (kind, Sq, r) =>
                        opt_nat_eqb r (match kind with
                                       | 0 | 2 => meet_of n down Sq
                                       | _ => meet_of n up Sq
                                       end)
                    end) qs.

Definition sorted_path (c : c03_case) : bool := Nat.ltb (k_algo c) 4.
Definition mutated (c : c03_case) : bool := Nat.leb 10 (k_algo c).

Definition model_matches_nocache (c : c03_case) : bool :=
  let cs := k_concepts c in let n := length cs in
  (if sorted_path c then list_eqb concept_eqb (sort_concepts cs) cs else true) &&
  (if sorted_path c then opt_chains_eqb (get_chains_sorted_of cs (parents_nocache cs)) (k_chains_sorted c)
   else true) &&
  lists_eqb (per_index n (descendants_nocache cs)) (k_desc c) &&
  lists_eqb (per_index n (ancestors_nocache cs)) (k_anc c) &&
  lists_eqb (per_index n (children_nocache cs)) (k_chi c) &&
  lists_eqb (per_index n (parents_nocache cs)) (k_par c) &&
  matrix_eqb (matrix n (leq_i cs)) (k_leq c) &&
  opt_nat_eqb (top_index cs) (k_top c) && opt_nat_eqb (bottom_index cs) (k_bot c) &&
  nat_list_eqb (k_tops c) (match top_index cs with Some x => [x] | None => [] end) &&
  nat_list_eqb (k_bots c) (match bottom_index cs with Some x => [x] | None => [] end) &&
  queries_match n (descendants_nocache cs) (ancestors_nocache cs) (k_queries c) &&
  opt_chains_eqb (get_chains_nocache cs) (k_chains c).

Definition ascending (l : list nat) : list nat := l.   (* the executable instance visits sets in the stored order *)

Definition model_matches_lindig (c : c03_case) (pre : list concept) (dict : assoc) : bool :=
  match lindig_resorted ascending 30 pre dict with
  | LErr _ => false
  | LOk l =>
      let cs := ll_concepts l in let n := length cs in
      let down := get (ll_descendants l) in let up := get (ll_ancestors l) in
      list_eqb concept_eqb cs (k_concepts c) &&
      lists_eqb (per_index n down) (k_desc c) &&
      lists_eqb (per_index n up) (k_anc c) &&
      lists_eqb (per_index n (get (ll_children l))) (k_chi c) &&
      lists_eqb (per_index n (get (ll_parents l))) (k_par c) &&
      matrix_eqb (matrix n (leq_cached cs (ll_descendants l))) (k_leq c) &&
      opt_nat_eqb (ll_top l) (k_top c) && opt_nat_eqb (ll_bottom l) (k_bot c) &&
      nat_list_eqb (k_tops c) (match ll_top l with Some x => [x] | None => [] end) &&
      nat_list_eqb (k_bots c) (match ll_bottom l with Some x => [x] | None => [] end) &&
      queries_match n down up (k_queries c) &&
      opt_chains_eqb (get_chains_of cs (get (ll_parents l))) (k_chains c) &&
      opt_chains_eqb (get_chains_sorted_of cs (get (ll_parents l))) (k_chains_sorted c) &&
      (* the un-resorted lattice: leq table pre-filled from the closure when it has < 10 elements *)
      (let m := length pre in
       match closed_relation ascending 30 dict with
       | CDone d => matrix_eqb (matrix m (fun a b => if Nat.eqb a b
                                                     then (if Nat.ltb m 10 then true else leq_i pre a b)
                                                     else mem a (get d b)))
                               (k_pre_leq c)
       | _ => false
       end)
  end.

Definition query_eqb (p q : nat * list nat * option nat) : bool :=
  match p, q with
  | (k1, s1, r1), (k2, s2, r2) => Nat.eqb k1 k2 && nat_list_eqb s1 s2 && opt_nat_eqb r1 r2
  end.
(* the model and the spec are functions of the concept list alone: the second round is judged
   by comparing it with the first *)
Definition round2_same (c : c03_case) : bool :=
  match k_round2 c with
  | None => true
  | Some r =>
      lists_eqb (k_desc c) (k2_desc r) && lists_eqb (k_anc c) (k2_anc r) &&
      lists_eqb (k_chi c) (k2_chi r) && lists_eqb (k_par c) (k2_par r) &&
      matrix_eqb (k_leq c) (k2_leq r) &&
      opt_nat_eqb (k_top c) (k2_top r) && opt_nat_eqb (k_bot c) (k2_bot r) &&
      list_eqb query_eqb (k_queries c) (k2_queries r) &&
      opt_chains_eqb (k_chains c) (k2_chains r)
  end.

Definition distinctb (l : list (list nat)) : bool :=
  (fix go (l : list (list nat)) : bool :=
     match l with [] => true | x :: l' => negb (existsb (nat_list_eqb x) l') && go l' end) l.

Definition snap_model (s : c03_snap) : bool :=
  let cs := s_concepts s in let n := length cs in
  lists_eqb (per_index n (children_nocache cs)) (s_chi s) &&
  lists_eqb (per_index n (parents_nocache cs)) (s_par s) &&
  opt_nat_eqb (top_index cs) (s_top s) && opt_nat_eqb (bottom_index cs) (s_bot s) &&
  opt_chains_eqb (get_chains_nocache cs) (s_chains s).

Definition snap_spec (t : table) (s : c03_snap) : bool :=
  let cs := map canon_concept (s_concepts s) in
  let exts := map fst cs in let n := length cs in
  forallb (fun cc => is_conceptb t (fst cc) (snd cc)) cs && distinctb exts &&
  lists_eqb (s_chi s) (map (spec_children exts) (seq 0 n)) &&
  lists_eqb (s_par s) (map (spec_parents exts) (seq 0 n)) &&
  match s_top s, s_bot s, s_chains s with
  | Some kt, Some kb, Some chains =>
      Nat.ltb kt n && Nat.ltb kb n &&
      nat_list_eqb (set_at exts kt) (all_objs t) &&
      nat_list_eqb (set_at exts kb) (ext t (all_attrs t)) &&
      chains_okb exts kt chains
  | _, _, _ => false
  end.

Definition c03_same_as_model (c : c03_case) : bool :=
  Nat.eqb (k_err c) 0 && round2_same c && forallb snap_model (k_snaps c) &&
  match k_pre c with
  | Some (pre, dict) => model_matches_lindig c pre dict
  | None => match k_algo c with
            | 1 | 2 => false          (* a Lindig case must carry the un-resorted lattice *)
            | _ => model_matches_nocache c
            end
  end.

(* ------------------------------------------------------------------ the specification side *)
(* all concepts of the table are present: by the oracle (closures of all 2^h object subsets) for
   h <= 7; for taller tables by generation: the full object set is an extent and the extents are
   closed under intersection with every attribute extent (Lemmas/C03.v: generated_complete) *)
Definition complete_by_generation (t : table) (exts : list (list nat)) : bool :=
  existsb (nat_list_eqb (all_objs t)) exts &&
  forallb (fun A => forallb (fun m => let Am := filter (fun g => I t g m) A in
                                      existsb (nat_list_eqb Am) exts) (all_attrs t)) exts.
Definition completeb (t : table) (cs : list concept) : bool :=
  if Nat.leb (height t) 7
  then forallb (fun cc => existsb (concept_eqb cc) cs) (concepts_spec t)
  else complete_by_generation t (map fst cs).

Definition c03_spec_ok (c : c03_case) : bool :=
  let t := k_table c in let cs := map canon_concept (k_concepts c) in
  let exts := map fst cs in let ints := map snd cs in let n := length cs in
  let complete := completeb t cs in
  Nat.eqb (k_err c) 0 && wfb t && round2_same c && forallb (snap_spec t) (k_snaps c) &&
  (* the lattice is the set of all concepts of the table, each once *)
  forallb (fun cc => is_conceptb t (fst cc) (snd cc)) cs && distinctb exts &&
  (mutated c || complete) &&
  (* order = proper inclusion of extents; children / parents = covers *)
  lists_eqb (k_desc c) (map (spec_descendants exts) (seq 0 n)) &&
  lists_eqb (k_anc c) (map (spec_ancestors exts) (seq 0 n)) &&
  lists_eqb (k_chi c) (map (spec_children exts) (seq 0 n)) &&
  lists_eqb (k_par c) (map (spec_parents exts) (seq 0 n)) &&
  matrix_eqb (k_leq c) (matrix n (spec_leq exts)) &&
  (* the top has all objects, the bottom the objects having every attribute; from_context lists
     by non-increasing support with the top first and the bottom last *)
  match k_top c, k_bot c with
  | Some kt, Some kb =>
      Nat.ltb kt n && Nat.ltb kb n &&
      nat_list_eqb (k_tops c) [kt] && nat_list_eqb (k_bots c) [kb] &&
      nat_list_eqb (set_at exts kt) (all_objs t) &&
      nat_list_eqb (set_at exts kb) (ext t (all_attrs t)) &&
      (if sorted_path c then Nat.eqb kt 0 && Nat.eqb kb (n - 1) && sizes_sortedb exts else true) &&
      match k_chains c with
      | None => false
      | Some chains => chains_okb exts kt chains
      end &&
      (if sorted_path c
       then match k_chains_sorted c with None => false | Some chains => chains_okb exts kt chains end
       else true)
  | _, _ => false
  end &&
  (* meet: intersection of extents; join: intersection of intents (complete concept set);
     after removals: the greatest lower / least upper bound among the listed concepts, if any *)
  forallb (fun q => match q with
                    | (kind, Sq, r) =>
                        let S' := match Sq with [] => seq 0 n | _ => Sq end in
                        if complete
                        then match r with
                             | None => false
                             | Some k => match kind with
                                         | 0 | 2 => spec_meet_ok t exts S' k
                                         | _ => spec_join_ok t ints S' k
                                         end
                             end
                        else match kind with
                             | 0 | 2 => spec_bound_ok (is_glb exts S') n r
                             | _ => spec_bound_ok (is_lub exts S') n r
                             end
                    end) (k_queries c) &&
  (* the un-resorted Lindig lattice answers leq by inclusion as well *)
  match k_pre c with
  | None => true
  | Some (pre, _) => matrix_eqb (k_pre_leq c) (matrix (length pre) (spec_leq (map fst pre)))
  end.

Definition c03_check (c : c03_case) : nat := code_of (c03_same_as_model c) (c03_spec_ok c).

Definition c03_show (c : c03_case) :=
  let cs := k_concepts c in let n := length cs in
  (c03_same_as_model c, c03_spec_ok c, round2_same c,
   (per_index n (children_nocache cs), per_index n (parents_nocache cs), top_index cs, bottom_index cs),
   (map (spec_children (map fst cs)) (seq 0 n), get_chains_nocache cs),
   match k_pre c with
   | Some (pre, dict) => Some (lindig_resorted ascending 30 pre dict)
   | None => None
   end).

(* Corr/C05.v — executable check for one C05 case: one table, one operation, and what each of
   the three back-ends of the implementation answered (lists, numpy, bitarray, in this order).
   Every answer is compared with the model of that back-end and with the back-end-free spec. *)
From FCA Require Export Corr.Common Model.BinTableOps Spec.BinTableOpsSpec.

Record c05_case := {
  c5_table : table;
  c5_op : op;
  c5_impl : list (ires val)      (* BinTableLists, BinTableNumpy, BinTableBitarray *)
}.

Definition tbl_eqb (a b : table) : bool := list_eqb (list_eqb Bool.eqb) a b.
Definition ext_eqb (a b : list (nat * list bool)) : bool :=
  list_eqb (fun x y => Nat.eqb (fst x) (fst y) && bool_list_eqb (snd x) (snd y)) a b.

Definition val_eqb (x y : val) : bool :=
  match x, y with
  | VBool a, VBool b => Bool.eqb a b
  | VNat a, VNat b => Nat.eqb a b
  | VBools a, VBools b => bool_list_eqb a b
  | VNats a, VNats b => nat_list_eqb a b
  | VShape h w, VShape h' w' => Nat.eqb h h' && Nat.eqb w w'
  | VTable h w d, VTable h' w' d' => Nat.eqb h h' && Nat.eqb w w' && tbl_eqb d d'
  | VConv c h w d, VConv c' h' w' d' =>
      backend_eqb c c' && Nat.eqb h h' && Nat.eqb w w' && tbl_eqb d d'
  | VCtx h w d o a, VCtx h' w' d' o' a' =>
      Nat.eqb h h' && Nat.eqb w w' && tbl_eqb d d' && nat_list_eqb o o' && nat_list_eqb a a'
  | VExt a, VExt b => ext_eqb a b
  | _, _ => false
  end.

Definition to_ires (r : res val) : ires val :=
  match r with ROk v => IOk v | RErr k => IErr k end.

Definition backends := [BLists; BNumpy; BBitarray].

Definition c05_models (c : c05_case) : list (ires val) :=
  map (fun b => to_ires (run_op b (c5_table c) (c5_op c))) backends.
Definition c05_spec (c : c05_case) : ires val := to_ires (spec_op (c5_table c) (c5_op c)).

Definition all_agree (l : list (ires val)) : bool :=
  match l with
  | [] => true
  | x :: rest => forallb (fun y => ires_eqb val_eqb x y) rest
  end.

Definition c05_check (c : c05_case) : nat :=
  let impl := c5_impl c in
  let same := Nat.eqb (length impl) 3 && list_eqb (ires_eqb val_eqb) impl (c05_models c) in
  let ok := Nat.eqb (length impl) 3 &&
            (if spec_applies (c5_table c) (c5_op c)
             then forallb (fun x => ires_eqb val_eqb x (c05_spec c)) impl
             else all_agree impl) in
  code_of same ok.

Definition c05_show (c : c05_case) :=
  (c05_models c, c05_spec c, spec_applies (c5_table c) (c5_op c)).

(* Corr/C08.v — executable check for one C08 case.
   A case carries what the implementation did; the check runs the MODEL of the code
   (Model/C08_Concept.v) and the SPEC (Spec/C08_Order.v, Spec/Closure.v) on the same input.
   Comparison result codes: 0 False, 1 True, 2 UnmatchedContextError, 3 UnmatchedMonotonicityError,
   4 NotImplementedError, 5 any other exception. *)
From FCA Require Export Corr.Common Model.C08_Concept Spec.C08_Order Spec.C08_Pattern.
(* the many-valued model and spec of C13/C14, for PatternConcept.from_objects over all four pattern
   structures; loaded but NOT imported: they share short names with Model/C08_Concept.v *)
From FCA Require Model.MVContext Spec.MVLatticeSpec.

(* a context of the case: formal (names as ids + table) or many-valued (cells encoded injectively
   by the harness as lists of integers, with a pattern-type id per column) *)
Inductive ctxv :=
| FCtx (K : fctx)
| MCtx (onames anames ptypes : list nat) (cells : list (list (list Z))).

Definition z_list_eqb := list_eqb Z.eqb.

Definition ctxv_eqb (x y : ctxv) : bool :=
  match x, y with
  | FCtx a, FCtx b =>
      nat_list_eqb (k_onames a) (k_onames b) && nat_list_eqb (k_anames a) (k_anames b)
      && list_eqb bool_list_eqb (k_table a) (k_table b)
  | MCtx o1 a1 p1 c1, MCtx o2 a2 p2 c2 =>
      nat_list_eqb o1 o2 && nat_list_eqb a1 a2 && nat_list_eqb p1 p2
      && list_eqb (list_eqb z_list_eqb) c1 c2
  | _, _ => false
  end.

Definition ctxv_height (x : ctxv) : nat :=
  match x with FCtx K => height (k_table K) | MCtx o _ _ _ => length o end.

(* a concept as the implementation holds it *)
(* cc_pat : the concept is a PatternConcept (else a FormalConcept) *)
Record cc := mk_cc { cc_ctx : nat; cc_hash : Z; cc_mono : bool; cc_ext : list nat; cc_pat : bool }.

Inductive fo_out := FOk (ext_i ext int_i int : list nat) (hash : Z) (mono : bool) | FErr (kind : nat).
Inductive po_out := POk (ext_i ext : list nat) (intent : list desc) (hash : Z) | PErr (kind : nat).

(* PatternConcept.from_objects on a context with any mix of structures: intent by structure index *)
Inductive pa_out :=
| PAOk (ext_i ext : list nat) (intent : list FCA.Model.PatternStructure.desc) (hash : Z)
| PAErr (kind : nat).

Inductive c08_case :=
| CmpCase (pattern : bool) (ctxs : list ctxv) (fresh : list Z) (cs : list cc) (res : list (list nat))
      (* fresh : hash_fixed of a freshly built context with the content ctxs[k] *)
| FromObjCase (b : backend) (K : fctx) (h : Z) (items : list (objs_arg * bool * bool * fo_out))
| PFromObjCase (K : mvctx) (h : Z) (items : list (objs_arg * bool * bool * po_out))
| PAllCase (K : FCA.Model.MVContext.mvctx) (h : Z) (items : list (list nat * bool * pa_out))
| SetattrCase (pattern : bool) (key : nat) (impl_err : nat) (unchanged : bool)
| HashCase (K : fctx) (h : Z).

Definition code_of_cres (r : cres bool) : nat :=
  match r with
  | COk false => 0 | COk true => 1
  | CErr UnmatchedContext => 2 | CErr UnmatchedMonotone => 3 | CErr NotImpl => 4 | CErr _ => 5
  end.

(* ------------------------------------------------------------------ comparisons *)

Definition fc_of (c : cc) : fconcept := mk_fc (cc_ext c) [] [] [] [] (Some (cc_hash c)) (cc_mono c).
Definition pc_of (c : cc) : pconcept := mk_pc (cc_ext c) [] [] [] (Some (cc_hash c)).

(* x.op(y) as the code executes it: the class of the LEFT operand decides.  A PatternConcept only
   reads context_hash / support / extent_i of the other operand, whatever its class; a FormalConcept
   compared with a PatternConcept of an equal hash reads other.is_monotone: AttributeError (5) *)
Definition cmp1 (op : nat) (x y : cc) : nat :=
  if cc_pat x then
    code_of_cres (match op with
                  | 0 => pc_eq (pc_of x) (pc_of y) | 1 => pc_ne (pc_of x) (pc_of y)
                  | 2 => pc_le (pc_of x) (pc_of y) | _ => pc_lt (pc_of x) (pc_of y) end)
  else if cc_pat y then (if Z.eqb (cc_hash x) (cc_hash y) then 5 else 2)
  else
    code_of_cres (match op with
                  | 0 => fc_eq (fc_of x) (fc_of y) | 1 => fc_ne (fc_of x) (fc_of y)
                  | 2 => fc_le (fc_of x) (fc_of y) | _ => fc_lt (fc_of x) (fc_of y) end).

(* [eq; ne; le; lt; ge; gt] by the model of the code; >= and > are the reflected calls *)
Definition model_row (a b : cc) : list nat :=
  [cmp1 0 a b; cmp1 1 a b; cmp1 2 a b; cmp1 3 a b; cmp1 2 b a; cmp1 3 b a].

Definition same_ctx (ctxs : list ctxv) (a b : cc) : bool :=
  match nth_error ctxs (cc_ctx a), nth_error ctxs (cc_ctx b) with
  | Some x, Some y => ctxv_eqb x y
  | _, _ => false
  end.

Definition b2n (b : bool) : nat := if b then 1 else 0.

(* ... and by the property: refusal across contexts / monotonicity (with the exception class of the
   operand that executes the comparison), else the set order -- whatever routes built the concepts *)
Definition refusal (x : cc) : nat := if cc_pat x then 4 else 2.
Definition spec_row (ctxs : list ctxv) (a b : cc) : list nat :=
  if negb (same_ctx ctxs a b) then [refusal a; refusal a; refusal a; refusal a; refusal b; refusal b]
  else if negb (Bool.eqb (cc_mono a) (cc_mono b)) then repeat 3 6
  else
    let m := cc_mono a in let A := cc_ext a in let B := cc_ext b in
    map b2n [spec_eq A B; negb (spec_eq A B); spec_le m A B; spec_lt m A B; spec_le m B A; spec_lt m B A].

(* finding D18 (guard_index 1): hash_fixed of the two context CONTENTS differs, or the contents are
   equal.  The hash a concept carries must be the one of the content it was derived from (model:
   from_objects stores H K) -- a stale or otherwise wrong stored hash is not covered by D18 *)
Definition fresh_of (fresh : list Z) (c : cc) : Z := nth (cc_ctx c) fresh (-1)%Z.
Definition d18_guard (ctxs : list ctxv) (fresh : list Z) (a b : cc) : bool :=
  negb (Z.eqb (fresh_of fresh a) (fresh_of fresh b)) || same_ctx ctxs a b.

Fixpoint nodupb (l : list nat) : bool :=
  match l with [] => true | x :: l' => negb (mem x l') && nodupb l' end.

(* what is assumed of a library-derived concept: duplicate-free object indexes of its context, listed
   in any order (close_by_one_objectwise lists them in discovery order); a non-monotone formal
   concept is a closed set *)
Definition derived_ok (ctxs : list ctxv) (c : cc) : bool :=
  match nth_error ctxs (cc_ctx c) with
  | None => false
  | Some x =>
      nodupb (cc_ext c) && in_rangeb (ctxv_height x) (cc_ext c)
      && match x with
         | FCtx K => negb (cc_pat c)
                     && (if cc_mono c then true
                         else same_setb (cl_obj (k_table K) (cc_ext c)) (cc_ext c))
         | MCtx _ _ _ _ => cc_pat c
         end
  end.

Definition res_at (res : list (list nat)) (n i j k : nat) : nat := nth k (nth (i * n + j) res []) 9.

Definition firstn_eqb (k : nat) (a b : list nat) : bool := nat_list_eqb (firstn k a) (firstn k b).

Definition cmp_check (ctxs : list ctxv) (fresh : list Z) (cs : list cc) (res : list (list nat)) : nat :=
  let n := length cs in
  let idx := seq 0 n in
  let pairs := list_prod idx idx in
  let cat i := nth i cs (mk_cc 0 0 false [] false) in
  let row i j := nth (i * n + j) res [] in
  let same :=
      forallb (fun c => Z.eqb (cc_hash c) (fresh_of fresh c)) cs &&
      forallb (fun p => let '(i, j) := p in
                 let m := model_row (cat i) (cat j) in
                 firstn_eqb 6 (row i j) m && Nat.eqb (length (row i j)) 7
                 (* the model predicts equal hashes exactly when it says "equal" *)
                 && (negb (Nat.eqb (nth 0 m 9) 1) || Nat.eqb (nth 6 (row i j) 9) 1)) pairs in
  let ok_pair p := let '(i, j) := p in
                   firstn_eqb 6 (row i j) (spec_row ctxs (cat i) (cat j))
                   && (negb (Nat.eqb (nth 0 (row i j) 9) 1) || Nat.eqb (nth 6 (row i j) 9) 1) in
  let guard1 p := let '(i, j) := p in d18_guard ctxs fresh (cat i) (cat j) in
  let le i j := res_at res n i j 2 in
  let eq i j := res_at res n i j 0 in
  (* partial-order laws read off the implementation's own answers, over the concepts [use] *)
  let laws (use : nat -> bool) :=
      let ix := filter use idx in
      forallb (fun i => Nat.eqb (le i i) 1) ix
      && forallb (fun i => forallb (fun j =>
                   negb (Nat.eqb (le i j) 1 && Nat.eqb (le j i) 1) || Nat.eqb (eq i j) 1) ix) ix
      && forallb (fun i => forallb (fun j =>
                   negb (Nat.eqb (le i j) 1)
                   || forallb (fun k => negb (Nat.eqb (le j k) 1) || Nat.eqb (le i k) 1) ix) ix) ix in
  let pre := forallb (derived_ok ctxs) cs && Nat.eqb (length res) (n * n)
             && Nat.eqb (length fresh) (length ctxs) in
  let ok_all := pre && laws (fun _ => true) && forallb ok_pair pairs in
  let ok_guarded := pre && laws (fun _ => true)
                    && forallb (fun p => negb (guard1 p) || ok_pair p) pairs in
  let g1_all := forallb guard1 pairs in
  let k := if negb g1_all then 10 else 0 in
  if ok_all then (if same then 0 else 1 + k)
  else if ok_guarded && negb (Nat.eqb k 0) then k + code_of same false
  else code_of same false.

(* ------------------------------------------------------------------ from_objects (formal) *)

Definition err_kind (e : cerr) : nat :=
  match e with
  | ValueErr => 2 | UnmatchedContext => 3 | UnmatchedMonotone => 4 | Frozen => 5 | AssertErr => 6
  | NotImpl => 9
  end.

Definition fo_model (b : backend) (K : fctx) (h : Z) (arg : objs_arg) (e m : bool) : fo_out :=
  match fc_from_objects (fun _ => h) b K arg e m with
  | COk c => FOk (fc_extent_i c) (fc_extent c) (fc_intent_i c) (fc_intent c)
                 (match fc_hash c with Some x => x | None => (-1)%Z end) (fc_mono c)
  | CErr er => FErr (err_kind er)
  end.

Definition fo_out_eqb (x y : fo_out) : bool :=
  match x, y with
  | FOk a1 b1 c1 d1 h1 m1, FOk a2 b2 c2 d2 h2 m2 =>
      nat_list_eqb a1 a2 && nat_list_eqb b1 b2 && nat_list_eqb c1 c2 && nat_list_eqb d1 d2
      && Z.eqb h1 h2 && Bool.eqb m1 m2
  | FErr k1, FErr k2 => Nat.eqb k1 k2
  | _, _ => false
  end.

(* spec-side name lookup, written independently of the model: position of the first equal name *)
Definition spec_pos (names : list nat) (x : nat) : option nat :=
  match find (fun p => Nat.eqb (snd p) x) (combine (seq 0 (length names)) names) with
  | Some p => Some (fst p)
  | None => None
  end.

Fixpoint spec_positions (names xs : list nat) : option (list nat) :=
  match xs with
  | [] => Some []
  | x :: xs' => match spec_pos names x, spec_positions names xs' with
                | Some i, Some l => Some (i :: l)
                | _, _ => None
                end
  end.

Definition fo_spec (K : fctx) (h : Z) (arg : objs_arg) (e m : bool) : fo_out :=
  if m then FErr 6
  else
    let t := k_table K in
    match (match arg with ByIndex l => Some l | ByName l => spec_positions (k_onames K) l end) with
    | None => FErr 2
    | Some A =>
        let B := int t A in
        let A' := if e then A else cl_obj t A in
        FOk A' (map (fun g => nth g (k_onames K) 0) A') B (map (fun a => nth a (k_anames K) 0) B) h false
    end.

(* additionally: without is_extent the result must be a formal concept of the table *)
Definition fo_is_concept (K : fctx) (e : bool) (o : fo_out) : bool :=
  match o with
  | FOk a _ b _ _ _ => if e then true else is_conceptb (k_table K) a b
  | FErr _ => true
  end.

Definition fromobj_check (b : backend) (K : fctx) (h : Z)
           (items : list (objs_arg * bool * bool * fo_out)) : nat :=
  let same := forallb (fun it => let '(arg, e, m, o) := it in fo_out_eqb o (fo_model b K h arg e m)) items in
  let ok := forallb (fun it => let '(arg, e, m, o) := it in
                       fo_out_eqb o (fo_spec K h arg e m) && fo_is_concept K e o) items in
  code_of same ok.

(* ------------------------------------------------------------------ from_objects (interval patterns) *)

Definition desc_eqb (x y : desc) : bool :=
  match x, y with
  | None, None => true
  | Some (a, b), Some (c, d) => Z.eqb a c && Z.eqb b d
  | _, _ => false
  end.

Definition po_out_eqb (x y : po_out) : bool :=
  match x, y with
  | POk a1 b1 d1 h1, POk a2 b2 d2 h2 =>
      nat_list_eqb a1 a2 && nat_list_eqb b1 b2 && list_eqb desc_eqb d1 d2 && Z.eqb h1 h2
  | PErr k1, PErr k2 => Nat.eqb k1 k2
  | _, _ => false
  end.

Definition po_model (K : mvctx) (h : Z) (arg : objs_arg) (e m : bool) : po_out :=
  match pc_from_objects (fun _ => h) K arg e m with
  | COk c => POk (pc_extent_i c) (pc_extent c) (pc_intent_i c)
                 (match pc_hash c with Some x => x | None => (-1)%Z end)
  | CErr er => PErr (err_kind er)
  end.

(* spec: the interval hull of the objects' cells per column (min / max written independently of the
   model's running fold); the objects whose cells lie in it (Spec/C08_Pattern.v) *)
Definition hull_spec (K : mvctx) (A : list nat) (j : nat) : desc :=
  match A with
  | [] => None
  | g0 :: _ =>
      Some (fold_right Z.min (fst (mv_cell K g0 j)) (map (fun g => fst (mv_cell K g j)) A),
            fold_right Z.max (snd (mv_cell K g0 j)) (map (fun g => snd (mv_cell K g j)) A))
  end.

Definition po_spec (K : mvctx) (h : Z) (arg : objs_arg) (e m : bool) : po_out :=
  if m then PErr 6
  else
    match (match arg with ByIndex l => Some l | ByName l => spec_positions (mv_onames K) l end) with
    | None => PErr 2
    | Some A =>
        let ds := map (hull_spec K A) (seq 0 (mv_width K)) in
        let A' := if e then A else ext_mv K ds in
        POk A' (map (fun g => nth g (mv_onames K) 0) A') ds h
    end.

Definition pfromobj_check (K : mvctx) (h : Z) (items : list (objs_arg * bool * bool * po_out)) : nat :=
  let same := forallb (fun it => let '(arg, e, m, o) := it in po_out_eqb o (po_model K h arg e m)) items in
  let ok := forallb (fun it => let '(arg, e, m, o) := it in po_out_eqb o (po_spec K h arg e m)) items in
  code_of same ok.

(* ------------------------------------------------------------------ from_objects (all structures)
   model: Model/FCA.Model.MVContext.v pc_from_objects_views; spec: the product closure of Spec/FCA.Spec.PatternSpec.v
   (most specific description per column / the conventions for no objects, then the containment
   filter); value sets are compared as sets *)

Definition descs_eqb (a b : list FCA.Model.PatternStructure.desc) : bool := list_eqb FCA.Spec.PatternSpec.desc_eqb a b.

Definition pa_out_eqb (x y : pa_out) : bool :=
  match x, y with
  | PAOk a1 b1 d1 h1, PAOk a2 b2 d2 h2 =>
      nat_list_eqb a1 a2 && nat_list_eqb b1 b2 && descs_eqb d1 d2 && Z.eqb h1 h2
  | PAErr k1, PAErr k2 => Nat.eqb k1 k2
  | _, _ => false
  end.

Definition pa_model (K : FCA.Model.MVContext.mvctx) (h : Z) (objs : list nat) (e : bool) : pa_out :=
  let v := FCA.Model.MVContext.pc_from_objects_views K objs e in
  PAOk (FCA.Model.MVContext.pv_ext_i v) (FCA.Model.MVContext.pv_ext v) (map snd (FCA.Model.MVContext.pv_int_i v)) h.

Definition pa_spec (K : FCA.Model.MVContext.mvctx) (h : Z) (objs : list nat) (e : bool) : pa_out :=
  let cols := FCA.Model.MVContext.mv_cols K in
  let A' := if e then objs else FCA.Spec.PatternSpec.mv_cl_spec cols (FCA.Model.MVContext.mv_n K) objs in
  PAOk A' (map (fun g => nth g (FCA.Model.MVContext.mv_onames K) 0) A') (FCA.Spec.PatternSpec.mv_int_spec cols objs) h.

Definition pall_check (K : FCA.Model.MVContext.mvctx) (h : Z) (items : list (list nat * bool * pa_out)) : nat :=
  let same := forallb (fun it => let '(objs, e, o) := it in pa_out_eqb o (pa_model K h objs e)) items in
  let ok := forallb (fun it => let '(objs, e, o) := it in pa_out_eqb o (pa_spec K h objs e)) items in
  code_of same ok.

(* ------------------------------------------------------------------ attribute assignment
   keys, formal : 0 extent_i 1 extent 2 intent_i 3 intent 4 context_hash 5 is_monotone 6 measures 7.. other
   keys, pattern: 0 extent_i 1 extent 2 intent_i 3 intent 4 pattern_types 5 support 6 context_hash
                  7 measures
   impl_err: 0 = no exception, otherwise the exception kind (5 = AttributeError) *)

Definition fkey_of (k : nat) : fkey :=
  match k with
  | 0 => KExtentI | 1 => KExtent | 2 => KIntentI | 3 => KIntent | 4 => KHash | 5 => KMono
  | 6 => KMeasures | _ => KOther k
  end.
Definition pkey_of (k : nat) : pkey :=
  match k with
  | 0 => PExtentI | 1 => PExtent | 2 => PIntentI | 3 => PIntent | 4 => PPatternTypes | 5 => PSupport
  | 6 => PHash | _ => PMeasures
  end.

Definition setattr_model (pattern : bool) (key : nat) : nat :=
  let r := if pattern then snd (pc_setattr (mk_pc [] [] [] [] None) (pkey_of key) [])
           else snd (fc_setattr (mk_fo (mk_fc [] [] [] [] [] None false) []) (fkey_of key) (VMeasures [])) in
  match r with None => 0 | Some e => err_kind e end.

Definition setattr_spec (pattern : bool) (key : nat) : nat :=
  if pattern then (if Nat.ltb key 7 then 5 else 0) else (if Nat.ltb key 6 then 5 else 0).

Definition setattr_check (pattern : bool) (key impl_err : nat) (unchanged : bool) : nat :=
  code_of (Nat.eqb impl_err (setattr_model pattern key) && unchanged)
          (Nat.eqb impl_err (setattr_spec pattern key) && unchanged).

(* ------------------------------------------------------------------ dispatch *)

Definition c08_check (c : c08_case) : nat :=
  match c with
  | CmpCase p ctxs fresh cs res => cmp_check ctxs fresh cs res
  | FromObjCase b K h items => fromobj_check b K h items
  | PFromObjCase K h items => pfromobj_check K h items
  | PAllCase K h items => pall_check K h items
  | SetattrCase p k e u => setattr_check p k e u
  | HashCase K h => code_of (Z.eqb (H_adler K) h) true
  end.

Inductive c08_shown :=
| ShCmp (model spec : list (list nat)) (guards : list bool)
| ShFo (model spec : list fo_out)
| ShPo (model spec : list po_out)
| ShPa (model spec : list pa_out)
| ShSet (model spec : nat)
| ShHash (h : Z).

Definition c08_show (c : c08_case) : c08_shown :=
  match c with
  | CmpCase p ctxs fresh cs res =>
      let pairs := list_prod cs cs in
      ShCmp (map (fun ab => model_row (fst ab) (snd ab)) pairs)
            (map (fun ab => spec_row ctxs (fst ab) (snd ab)) pairs)
            (map (fun ab => d18_guard ctxs fresh (fst ab) (snd ab)) pairs)
  | FromObjCase b K h items =>
      ShFo (map (fun it => let '(arg, e, m, _) := it in fo_model b K h arg e m) items)
           (map (fun it => let '(arg, e, m, _) := it in fo_spec K h arg e m) items)
  | PFromObjCase K h items =>
      ShPo (map (fun it => let '(arg, e, m, _) := it in po_model K h arg e m) items)
           (map (fun it => let '(arg, e, m, _) := it in po_spec K h arg e m) items)
  | PAllCase K h items =>
      ShPa (map (fun it => let '(objs, e, _) := it in pa_model K h objs e) items)
           (map (fun it => let '(objs, e, _) := it in pa_spec K h objs e) items)
  | SetattrCase p k _ _ => ShSet (setattr_model p k) (setattr_spec p k)
  | HashCase K _ => ShHash (H_adler K)
  end.

(* Corr/Common.v — shared vocabulary of the correspondence check.
   The harness writes [cases : list case] literals; [bad_codes check cases] is evaluated with
   vm_compute and lists (index, code) for every case whose code is not 0.
   Codes:  0 = implementation output equals the model's AND satisfies the spec
           1 = implementation differs from the model, but its output satisfies the spec
           2 = implementation equals the model, but the output violates the spec
           3 = implementation differs from the model and violates the spec            *)
From FCA Require Export Base.ListSet.

Definition code_of (same_as_model spec_ok : bool) : nat :=
  match same_as_model, spec_ok with
  | true, true => 0 | false, true => 1 | true, false => 2 | false, false => 3
  end.

Fixpoint bad_codes_from {C} (k : nat) (check : C -> nat) (cases : list C) : list (nat * nat) :=
  match cases with
  | [] => []
  | c :: cs =>
      let r := check c in
      match r with
      | 0 => bad_codes_from (S k) check cs
      | _ => (k, r) :: bad_codes_from (S k) check cs
      end
  end.
Definition bad_codes {C} := @bad_codes_from C 0.

(* implementation results: a value, a KeyError naming an id, or another exception kind *)
Inductive ires (A : Type) := IOk (a : A) | IKeyErr (name : nat) | IErr (kind : nat).
Arguments IOk {A} a. Arguments IKeyErr {A} name. Arguments IErr {A} kind.

Definition ires_eqb {A} (eqb : A -> A -> bool) (x y : ires A) : bool :=
  match x, y with
  | IOk a, IOk b => eqb a b
  | IKeyErr a, IKeyErr b => Nat.eqb a b
  | IErr a, IErr b => Nat.eqb a b
  | _, _ => false
  end.

(* Corr/C01.v — executable check for one C01 case: run the model of the code and the spec on
   the same input and compare with what the implementation returned. *)
From FCA Require Export Corr.Common Model.FormalContext Spec.Galois.

Record c01_case := {
  c_backend : backend;
  c_table : table;
  c_op : nat;        (* 0 extension_i  1 intention_i  2 extension_monotone_i  3 intention_monotone_i
                        4 extension(names)  5 intention(names)  6 extension(names, monotone)
                        7 intention(names, monotone) *)
  c_arg : list nat;
  c_base : option (list nat);
  c_onames : list nat;
  c_anames : list nat;
  c_impl : ires (list nat)
}.

Definition of_result (r : result (list nat)) : ires (list nat) :=
  match r with Ok l => IOk l | ErrKey e => IKeyErr e end.

Definition c01_model (c : c01_case) : ires (list nat) :=
  let b := c_backend c in let t := c_table c in
  match c_op c with
  | 0 => IOk (extension_i b t (c_arg c) (c_base c))
  | 1 => IOk (intention_i b t (c_arg c) (c_base c))
  | 2 => IOk (extension_monotone_i b t (c_arg c) (c_base c))
  | 3 => IOk (intention_monotone_i b t (c_arg c) (c_base c))
  | 4 => of_result (extension_named b t (c_onames c) (c_anames c) (c_arg c) (c_base c) false)
  | 5 => of_result (intention_named b t (c_onames c) (c_anames c) (c_arg c) false)
  | 6 => of_result (extension_named b t (c_onames c) (c_anames c) (c_arg c) (c_base c) true)
  | _ => of_result (intention_named b t (c_onames c) (c_anames c) (c_arg c) true)
  end.

(* ---- the spec side, independent of the model of the code: first-occurrence lookup and filters *)
Fixpoint first_index_from (k : nat) (names : list nat) (x : nat) : option nat :=
  match names with
  | [] => None
  | y :: ys => if Nat.eqb x y then Some k else first_index_from (S k) ys x
  end.

Fixpoint spec_lookup (names xs : list nat) : ires (list nat) :=
  match xs with
  | [] => IOk []
  | x :: xs' =>
      match first_index_from 0 names x with
      | None => IKeyErr x
      | Some i => match spec_lookup names xs' with IOk l => IOk (i :: l) | e => e end
      end
  end.

Definition ires_bind {A B} (r : ires A) (f : A -> ires B) : ires B :=
  match r with IOk a => f a | IKeyErr e => IKeyErr e | IErr k => IErr k end.

(* None = the property does not constrain this case (monotone extension of the full set) *)
Definition c01_spec (c : c01_case) : option (ires (list nat)) :=
  let t := c_table c in
  let objs := default (all_objs t) (c_base c) in
  let attrs := default (all_attrs t) (c_base c) in
  match c_op c with
  | 0 => Some (IOk (ext_spec t (c_arg c) objs))
  | 1 => Some (IOk (int_spec t (c_arg c) attrs))
  | 2 => if Nat.eqb (length (c_arg c)) (width t) then None
         else Some (IOk (ext_mono_spec t (c_arg c) objs))
  | 3 => Some (IOk (int_mono_spec t (c_arg c) attrs))
  | 4 | 6 =>
      let mono := Nat.eqb (c_op c) 6 in
      Some (ires_bind (spec_lookup (c_anames c) (c_arg c)) (fun ai =>
            ires_bind (match c_base c with
                       | Some bs => spec_lookup (c_onames c) bs
                       | None => IOk (all_objs t) end) (fun bi =>
            IOk (map (fun g => nth g (c_onames c) 0)
                     (if mono then ext_mono_spec t ai bi else ext_spec t ai bi)))))
  | _ =>
      let mono := Nat.eqb (c_op c) 7 in
      Some (ires_bind (spec_lookup (c_onames c) (c_arg c)) (fun oi =>
            IOk (map (fun m => nth m (c_anames c) 0)
                     (if mono then int_mono_spec t oi (all_attrs t)
                      else int_spec t oi (all_attrs t)))))
  end.

Definition c01_spec_applies (c : c01_case) : bool :=
  match c_op c with
  | 6 => match spec_lookup (c_anames c) (c_arg c) with
         | IOk ai => negb (Nat.eqb (length ai) (width (c_table c)))
         | _ => true end
  | _ => true
  end.

Definition c01_check (c : c01_case) : nat :=
  let same := ires_eqb nat_list_eqb (c_impl c) (c01_model c) in
  let ok := match c01_spec c with
            | None => true
            | Some s => if c01_spec_applies c then ires_eqb nat_list_eqb (c_impl c) s else true
            end in
  code_of same ok.

Definition c01_show (c : c01_case) := (c01_model c, c01_spec c).

(* Spec/C18_MinGenSpec.v — what C18 means, independent of the search: the generators of an
   intent relative to a base object set, those of minimum cardinality, and the extension of a
   many-valued description. *)
From FCA Require Export Spec.Closure Model.C18_MinGen.
From Coq Require Import ZArith.
Local Open Scope nat_scope.

(* closure of an attribute set D evaluated inside the object set [base]:  (D' ∩ base)' *)
Definition closure_in (t : table) (base D : list nat) : list nat := int t (ext_spec t D base).

(* D generates [intent] inside [base] and contains the base generator *)
Definition is_gen (t : table) (intent base_gen base D : list nat) : Prop :=
  incl base_gen D /\ same_set (closure_in t base D) intent.
Definition is_genb (t : table) (intent base_gen base D : list nat) : bool :=
  subsetb base_gen D && same_setb (closure_in t base D) intent.

(* attribute sets are represented by the increasing sub-lists of 0 .. w-1 *)
Definition gens_spec (t : table) (intent base_gen base : list nat) : list (list nat) :=
  filter (is_genb t intent base_gen base) (sublists (all_attrs t)).
Definition mingens_spec (t : table) (intent base_gen base : list nat) : list (list nat) :=
  let g := gens_spec t intent base_gen base in
  filter (fun D => forallb (fun E => Nat.leb (length D) (length E)) g) g.

(* ---- many-valued: an object satisfies a description when every listed column value lies in
   the interval; None is satisfied by no object *)
Definition within (v : Z * Z) (lo hi : bound) : bool := bleb lo (Fin (fst v)) && bleb (Fin (snd v)) hi.
Definition satisfies1 (K : mvctx) (ps : nat) (d : descr) (g : nat) : bool :=
  match d with
  | DNone => false
  | DIv lo hi => within (cellv K ps g) lo hi
  | DNum x => within (cellv K ps g) x x
  end.
Definition satisfies (K : mvctx) (d : ddict) (g : nat) : bool :=
  forallb (fun kv => satisfies1 K (fst kv) (snd kv) g) d.
Definition mv_ext_spec (K : mvctx) (d : ddict) (base : list nat) : list nat := filter (satisfies K d) base.

(* "every returned generator has the same extension as the intent within the base object set" *)
Definition mv_gens_sound (K : mvctx) (intent : ddict) (base : list nat) (gens : list ddict) : Prop :=
  forall d, In d gens -> same_set (mv_ext_spec K d base) (mv_ext_spec K intent base).
Definition mv_soundb (K : mvctx) (intent : ddict) (base : list nat) (gens : list ddict) : bool :=
  forallb (fun d => same_setb (mv_ext_spec K d base) (mv_ext_spec K intent base)) gens.

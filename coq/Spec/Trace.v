(* Spec/Trace.v — what tracing a context through a lattice means: an object is mapped to the
   concepts whose intent it satisfies, and to the minimal ones among them (w.r.t. the order
   [lt] of the lattice) as its bottom concepts.  Independent of the model of the code. *)
From FCA Require Export Spec.Galois Spec.Covers.

Definition satisfies (t : table) (g : nat) (B : list nat) : bool := forallb (fun m => I t g m) B.

Definition traced_spec (intents : list (list nat)) (t : table) (g : nat) : list nat :=
  filter (fun i => satisfies t g (nth i intents [])) (seq 0 (length intents)).

Definition bottoms_spec (lt : nat -> nat -> bool) (intents : list (list nat)) (t : table) (g : nat)
  : list nat :=
  let n := length intents in
  filter (fun i => satisfies t g (nth i intents []) &&
                   negb (existsb (fun j => lt j i && satisfies t g (nth j intents [])) (seq 0 n)))
         (seq 0 n).

(* the hypothesis "intents are antitone along the order of the lattice" *)
Definition antitone_intents (lt : nat -> nat -> bool) (intents : list (list nat)) : Prop :=
  forall i j, i < length intents -> j < length intents -> lt i j = true ->
              incl (nth j intents []) (nth i intents []).
Definition antitone_intentsb (lt : nat -> nat -> bool) (intents : list (list nat)) : bool :=
  let n := length intents in
  forallb (fun i => forallb (fun j => negb (lt i j) || subsetb (nth j intents []) (nth i intents []))
                            (seq 0 n)) (seq 0 n).

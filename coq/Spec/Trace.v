(* Spec/Trace.v — what tracing a context through a lattice means: an object is mapped to the
   concepts whose intent it satisfies, and to the minimal ones among them (w.r.t. the order
   [lt] of the lattice) as its bottom concepts.  Independent of the model of the code.
   [sat i g] = "object g of the traced context satisfies the intent of concept i":
     formal context      : g has every attribute of the intent
     many-valued context : every description of the intent covers g's value in that structure
                           (for interval structures: a conjunction of interval containments). *)
From FCA Require Export Spec.Galois Spec.Covers Spec.PatternSpec.

Definition traced_gen (sat : nat -> nat -> bool) (n : nat) (g : nat) : list nat :=
  filter (fun i => sat i g) (seq 0 n).

Definition bottoms_gen (lt : nat -> nat -> bool) (sat : nat -> nat -> bool) (n : nat) (g : nat)
  : list nat :=
  filter (fun i => sat i g && negb (existsb (fun j => lt j i && sat j g) (seq 0 n))) (seq 0 n).

(* satisfaction is antitone along the order of the lattice: what satisfies a concept satisfies
   every concept above it *)
Definition antitone_sat (lt : nat -> nat -> bool) (sat : nat -> nat -> bool) (n : nat) : Prop :=
  forall i j, i < n -> j < n -> lt i j = true -> forall g, sat i g = true -> sat j g = true.

(* ---- formal contexts *)
Definition satisfies (t : table) (g : nat) (B : list nat) : bool := forallb (fun m => I t g m) B.
Definition sat_formal (intents : list (list nat)) (t : table) (i g : nat) : bool :=
  satisfies t g (nth i intents []).

Definition traced_spec (intents : list (list nat)) (t : table) (g : nat) : list nat :=
  traced_gen (sat_formal intents t) (length intents) g.
Definition bottoms_spec (lt : nat -> nat -> bool) (intents : list (list nat)) (t : table) (g : nat)
  : list nat := bottoms_gen lt (sat_formal intents t) (length intents) g.

(* "intents are antitone along the order of the lattice" *)
Definition antitone_intents (lt : nat -> nat -> bool) (intents : list (list nat)) : Prop :=
  forall i j, i < length intents -> j < length intents -> lt i j = true ->
              incl (nth j intents []) (nth i intents []).
Definition antitone_intentsb (lt : nat -> nat -> bool) (intents : list (list nat)) : bool :=
  let n := length intents in
  forallb (fun i => forallb (fun j => negb (lt i j) || subsetb (nth j intents []) (nth i intents []))
                            (seq 0 n)) (seq 0 n).

(* ---- many-valued contexts: an intent is a dictionary {structure index: description} *)
Definition mv_intent := list (nat * desc).
Definition sat_desc (cols : list column) (ds : mv_intent) (g : nat) : bool :=
  forallb (fun id => covers (snd id) (value_at (nth (fst id) cols (CAttr [])) g)) ds.
Definition sat_mv (intents : list mv_intent) (cols : list column) (i g : nat) : bool :=
  sat_desc cols (nth i intents []) g.

(* d1 is at least as specific as d2 (whatever d1 covers, d2 covers) *)
Definition desc_leb (d1 d2 : desc) : bool :=
  match d1, d2 with
  | DIv None, DIv _ => true
  | DIv (Some (a, b)), DIv (Some (a', b')) => ((a' <=? a)%Z && (b <=? b')%Z)%bool
  | DSet None, DSet _ => true
  | DSet (Some s), DSet (Some s') => subsetb s s'
  | DAttr d, DAttr d' => implb d' d
  | _, _ => false
  end.
(* an intent nothing satisfies: it contains an empty interval / empty set-valued description *)
Definition unsat_intent (ds : mv_intent) : bool :=
  existsb (fun id => match snd id with DIv None | DSet None => true | _ => false end) ds.
(* ds1 is at least as specific as ds2: nothing satisfies ds1, or same structures in the same order,
   each description at least as specific *)
Definition intent_leb (ds1 ds2 : mv_intent) : bool :=
  unsat_intent ds1 ||
  forallb2 (fun a b => Nat.eqb (fst a) (fst b) && desc_leb (snd a) (snd b)) ds1 ds2.
Definition antitone_mv (lt : nat -> nat -> bool) (intents : list mv_intent) : Prop :=
  forall i j, i < length intents -> j < length intents -> lt i j = true ->
              intent_leb (nth i intents []) (nth j intents []) = true.
Definition antitone_mvb (lt : nat -> nat -> bool) (intents : list mv_intent) : bool :=
  let n := length intents in
  forallb (fun i => forallb (fun j => negb (lt i j) || intent_leb (nth i intents []) (nth j intents []))
                            (seq 0 n)) (seq 0 n).

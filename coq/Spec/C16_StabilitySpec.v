(* Spec/C16_StabilitySpec.v — what C16 means, independent of the model of the code:
   stability as a fraction of sub-sets, lower covers of an extent among all extents, and the
   published bounds (Buzmakov, Kuznetsov, Napoli 2014) written over those covers. *)
From FCA Require Export Base.C16_Dyadic Spec.Closure.
From Coq Require Import ZArith QArith.
Local Open Scope nat_scope.

(* number of sub-sets S of A with S' = B, and the fraction of all 2^|A| sub-sets *)
Definition stable_count (t : table) (A B : list nat) : nat :=
  count_if (fun S => nat_list_eqb (int t S) B) (sublists A).
Definition stab_spec (t : table) (A B : list nat) : Q :=
  Qmake (Z.of_nat (stable_count t A B)) (pow2p (length A)).

(* strict inclusion of index sets *)
Definition proper_subb (C A : list nat) : bool := if subsetb C A then negb (subsetb A C) else false.

(* the lower covers of A in a family of sets: members strictly below A with nothing between *)
Definition lower_covers (exts : list (list nat)) (A : list nat) : list (list nat) :=
  filter (fun C => if proper_subb C A
                   then negb (existsb (fun D => if proper_subb C D then proper_subb D A else false) exts)
                   else false) exts.

(* [exts] lists exactly the extents of t (each in its canonical form  ext t B) *)
Definition all_extents (t : table) (exts : list (list nat)) : Prop :=
  forall C, In C exts <-> exists B, in_range (width t) B /\ C = ext t B.

Definition sdelta (A C : list nat) : nat := length (diff A C).

(* LStab = 1 - sum over the lower covers of 2^-|A \ C| ;  UStab = 1 - max 2^-|A \ C| = 1 - 2^-min *)
Definition lstab_spec (exts : list (list nat)) (A : list nat) : Q :=
  Qminus 1 (qsum (map (fun C => inv_pow2 (sdelta A C)) (lower_covers exts A))).
Definition min_delta_spec (exts : list (list nat)) (A : list nat) : option nat :=
  nmin_list (map (sdelta A) (lower_covers exts A)).
Definition ustab_spec (exts : list (list nat)) (A : list nat) : Q :=
  match min_delta_spec exts A with
  | None => 1%Q
  | Some d => Qminus 1 (inv_pow2 d)
  end.

(* log-free form of   min delta - log2 n <= -log2 (1 - stab) :   (1 - stab) * 2^(min delta) <= n *)
Definition log_bound_holds (stab : Q) (d : option nat) (n : nat) : Prop :=
  match d with
  | None => True
  | Some k => Qle (Qmult (Qminus 1 stab) (Qmake (Zpos (pow2p k)) 1)) (Qmake (Z.of_nat n) 1)
  end.
Definition log_bound_holdsb (stab : Q) (d : option nat) (n : nat) : bool :=
  match d with
  | None => true
  | Some k => Qle_bool (Qmult (Qminus 1 stab) (Qmake (Zpos (pow2p k)) 1)) (Qmake (Z.of_nat n) 1)
  end.

(* executable test that a list of (extent, intent) pairs is exactly the set of concepts of t:
   every pair is a concept, no extent twice, and the closure of every object sub-set is listed *)
Definition complete_latticeb (t : table) (L : list (list nat * list nat)) : bool :=
  forallb (fun c => is_conceptb t (fst c) (snd c)) L &&
  forallb (fun S => existsb (nat_list_eqb (cl_obj t S)) (map fst L)) (sublists (all_objs t)) &&
  Nat.eqb (length (nodup_lists (map fst L))) (length L).

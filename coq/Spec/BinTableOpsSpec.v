(* Spec/BinTableOpsSpec.v — property C05: what every binary-table operation means, independent of
   any back-end: select rows, then columns, then fold.  Cells are read with [cell t i j];
   nothing here mentions masks, loops, accumulators or a class. *)
From FCA Require Export Model.BinTableOps Spec.Galois.

Definition rows_of (t : table) : list nat := seq 0 (height t).
Definition cols_of (t : table) : list nat := seq 0 (width t).

(* the sub-table on rows rs and columns cs, in the given order *)
Definition sub (t : table) (rs cs : list nat) : table :=
  map (fun i => map (fun j => cell t i j) cs) rs.

(* a table value: the shape of a list of rows, and the rows *)
Definition tval (d : table) : val := VTable (height d) (width d) d.

Definition count_true {A} (p : A -> bool) (l : list A) : nat := length (filter p l).

Definition S_all (t : table) (axis : option nat) (rs cs : list nat) : val :=
  match axis with
  | None => VBool (forallb (fun i => forallb (fun j => cell t i j) cs) rs)
  | Some 0 => VBools (map (fun j => forallb (fun i => cell t i j) rs) cs)
  | Some _ => VBools (map (fun i => forallb (fun j => cell t i j) cs) rs)
  end.

Definition S_any (t : table) (axis : option nat) (rs cs : list nat) : val :=
  match axis with
  | None => VBool (existsb (fun i => existsb (fun j => cell t i j) cs) rs)
  | Some 0 => VBools (map (fun j => existsb (fun i => cell t i j) rs) cs)
  | Some _ => VBools (map (fun i => existsb (fun j => cell t i j) cs) rs)
  end.

Definition S_sum (t : table) (axis : option nat) (rs cs : list nat) : val :=
  match axis with
  | None => VNat (list_sum (map (fun i => count_true (fun j => cell t i j) cs) rs))
  | Some 0 => VNats (map (fun j => count_true (fun i => cell t i j) rs) cs)
  | Some _ => VNats (map (fun i => count_true (fun j => cell t i j) cs) rs)
  end.

Definition S_all_i (t : table) (axis : nat) (rs cs : list nat) : val :=
  match axis with
  | 0 => VNats (filter (fun j => forallb (fun i => cell t i j) rs) cs)
  | _ => VNats (filter (fun i => forallb (fun j => cell t i j) cs) rs)
  end.

Definition S_any_i (t : table) (axis : nat) (rs cs : list nat) : val :=
  match axis with
  | 0 => VNats (filter (fun j => existsb (fun i => cell t i j) rs) cs)
  | _ => VNats (filter (fun i => existsb (fun j => cell t i j) cs) rs)
  end.

Definition S_get (t : table) (it : item) : val :=
  match it with
  | ItInt i => VBools (map (fun j => cell t i j) (cols_of t))
  | ItSel s => tval (sub t (sel_idx s) (cols_of t))
  | ItPair (XInt i) (XInt j) => VBool (cell t i j)
  | ItPair (XInt i) (XSel c) => VBools (map (fun j => cell t i j) (sel_idx c))
  | ItPair (XSel r) (XInt j) => VBools (map (fun i => cell t i j) (sel_idx r))
  | ItPair (XSel r) (XSel c) => tval (sub t (sel_idx r) (sel_idx c))
  end.

Definition S_T (t : table) : table := map (fun j => map (fun i => cell t i j) (rows_of t)) (cols_of t).
Definition S_pointwise (f : bool -> bool -> bool) (t u : table) : table :=
  map (fun i => map (fun j => f (cell t i j) (cell u i j)) (cols_of t)) (rows_of t).
Definition S_invert (t : table) : table :=
  map (fun i => map (fun j => negb (cell t i j)) (cols_of t)) (rows_of t).
Definition table_eqb (t u : table) : bool := list_eqb (list_eqb Bool.eqb) t u.
Definition same_shape (t u : table) : bool :=
  Nat.eqb (height t) (height u) && Nat.eqb (width t) (width u).

Definition idx_list (names : list nat) (x : idx) : list nat :=
  match x with XInt i => [nth i names 0] | XSel s => map (fun k => nth k names 0) (sel_idx s) end.

(* the context cut out by two selections *)
Definition S_ctx_get (t : table) (on an : list nat) (it : item) : val :=
  match it with
  | ItInt i => VBool false   (* not constrained, see spec_applies *)
  | ItSel s => let d := sub t (sel_idx s) (cols_of t) in
               VCtx (height d) (width d) d (idx_list on (XSel s)) an
  | ItPair (XInt i) (XInt j) => VBool (cell t i j)
  | ItPair (XSel r) (XSel c) => let d := sub t (sel_idx r) (sel_idx c) in
               VCtx (height d) (width d) d (idx_list on (XSel r)) (idx_list an (XSel c))
  | _ => VBool false
  end.

Definition spec_op (t : table) (o : op) : res val :=
  match o with
  | OShape => ROk (VShape (height t) (width t))
  | OHeight => ROk (VNat (height t))
  | OWidth => ROk (VNat (width t))
  | OLen => ROk (VNat (height t))
  | OToList => ROk (tval t)
  | OToTuple => ROk (tval t)
  | OT => ROk (tval (S_T t))
  | OInvert => ROk (tval (S_invert t))
  | OAnd u => if same_shape t u then ROk (tval (S_pointwise andb t u)) else RErr E_Assertion
  | OOr u => if same_shape t u then ROk (tval (S_pointwise orb t u)) else RErr E_Assertion
  | OEq u => ROk (VBool (table_eqb t u))
  | OAll axis rows cols => if axis_ok axis then ROk (S_all t axis (rows_or t rows) (cols_or t cols))
                           else RErr E_Type
  | OAny axis rows cols => if axis_ok axis then ROk (S_any t axis (rows_or t rows) (cols_or t cols))
                           else RErr E_Type
  | OSum axis rows cols => if axis_ok axis then ROk (S_sum t axis (rows_or t rows) (cols_or t cols))
                           else RErr E_Type
  | OAllI axis rows cols => if axis_ok (Some axis)
                            then ROk (S_all_i t axis (rows_or t rows) (cols_or t cols)) else RErr E_Type
  | OAnyI axis rows cols => if axis_ok (Some axis)
                            then ROk (S_any_i t axis (rows_or t rows) (cols_or t cols)) else RErr E_Type
  | OGet it => ROk (S_get t it)
  | OConv via target => ROk (VConv (default BBitarray target) (height t) (width t) t)
  | OCtxGet on an it => ROk (S_ctx_get t on an it)
  | OCtxT on an => let d := S_T t in ROk (VCtx (height d) (width d) d an on)
  | OCtxInvert on an => let d := S_invert t in ROk (VCtx (height d) (width d) d on an)
  | OCtxExtents an =>
      ROk (VExt (map (fun jm => (snd jm, map (fun i => cell t i (fst jm)) (rows_of t)))
                     (combine (seq 0 (length an)) an)))
  | OCtxEq u => ROk (VBool (table_eqb t u))
  | ODeriv 0 arg base => ROk (VNats (ext_spec t arg (default (all_objs t) base)))
  | ODeriv 1 arg base => ROk (VNats (int_spec t arg (default (all_attrs t) base)))
  | ODeriv 2 arg base => ROk (VNats (ext_mono_spec t arg (default (all_objs t) base)))
  | ODeriv _ arg base => ROk (VNats (int_mono_spec t arg (default (all_attrs t) base)))
  end.

(* Where the property says what the answer is.  It does not for: init_bintable(table, 'auto')
   (every back-end rejects a table object there), a context cut by one index and one selection
   (every back-end raises), and a context with no rows but some columns (not representable:
   every back-end raises an AssertionError).  There only agreement of the back-ends is asked. *)
Definition spec_applies (t : table) (o : op) : bool :=
  match o with
  | OConv 0 None => false
  | ODeriv 2 arg _ => negb (Nat.eqb (length arg) (width t))   (* the suite pins the full attribute set *)
  | OCtxGet on an it =>
      match it with
      | ItInt _ => false
      | ItSel s => match sel_idx s with [] => false | _ => true end
      | ItPair (XInt _) (XInt _) => true
      | ItPair (XSel r) (XSel c) =>
          match sel_idx r, sel_idx c with [], _ :: _ => false | _, _ => true end
      | _ => false
      end
  | _ => true
  end.

(* Spec/C07_Roundtrip.v — what "round trip" means for each serialisation format: which inputs
   are admissible (executable predicates, used verbatim by the theorems and by the
   correspondence check), when two values count as equal, and the order a concept lattice
   object derives from its concepts (inclusion of extents; lower covers; top; bottom). *)
From FCA Require Export Model.C07_Serial.

(* ---------------------------------------------------------------- equality of values *)

Definition list_eqb_g {A} (eqb : A -> A -> bool) : list A -> list A -> bool :=
  fix go (a b : list A) : bool :=
    match a, b with
    | [], [] => true
    | x :: a', y :: b' => eqb x y && go a' b'
    | _, _ => false
    end.

Definition strs_eqb := list_eqb_g str_eqb.
Definition nats_eqb := list_eqb_g Nat.eqb.
Definition table_eqb := list_eqb_g (list_eqb_g Bool.eqb).
Definition ostr_eqb (a b : option str) : bool :=
  match a, b with Some x, Some y => str_eqb x y | None, None => true | _, _ => false end.
Definition oz_eqb (a b : option Z) : bool :=
  match a, b with Some x, Some y => Z.eqb x y | None, None => true | _, _ => false end.

Definition sctx_eqb (a b : sctx) : bool :=
  strs_eqb (sc_onames a) (sc_onames b) && strs_eqb (sc_anames a) (sc_anames b)
  && ostr_eqb (sc_desc a) (sc_desc b) && table_eqb (sc_table a) (sc_table b).

Definition smv_eqb (a b : smv) : bool :=
  strs_eqb (sm_onames a) (sm_onames b) && strs_eqb (sm_anames a) (sm_anames b)
  && ostr_eqb (sm_desc a) (sm_desc b) && list_eqb_g ptype_eqb (sm_ptypes a) (sm_ptypes b)
  && list_eqb_g (list_eqb_g cellv_eqb) (sm_rows a) (sm_rows b).

Definition meas_eqb := list_eqb_g (fun (x y : str * jv) => str_eqb (fst x) (fst y) && jv_eqb (snd x) (snd y)).

(* the defining fields of a concept (everything except the measures dictionary) *)
Definition fcv_core_eqb (a b : fcv) : bool :=
  nats_eqb (fv_extent_i a) (fv_extent_i b) && strs_eqb (fv_extent a) (fv_extent b)
  && nats_eqb (fv_intent_i a) (fv_intent_i b) && strs_eqb (fv_intent a) (fv_intent b)
  && oz_eqb (fv_hash a) (fv_hash b) && Bool.eqb (fv_mono a) (fv_mono b).
Definition fcv_eqb (a b : fcv) : bool := fcv_core_eqb a b && meas_eqb (fv_measures a) (fv_measures b).

Definition pcv_core_eqb (a b : pcv) : bool :=
  nats_eqb (pv_extent_i a) (pv_extent_i b) && strs_eqb (pv_extent a) (pv_extent b)
  && list_eqb_g cellv_eqb (pv_intent a) (pv_intent b)
  && list_eqb_g ptype_eqb (pv_ptypes a) (pv_ptypes b) && strs_eqb (pv_anames a) (pv_anames b)
  && oz_eqb (pv_hash a) (pv_hash b).
Definition pcv_eqb (a b : pcv) : bool := pcv_core_eqb a b && meas_eqb (pv_measures a) (pv_measures b).

Definition conceptv_core_eqb (a b : conceptv) : bool :=
  match a, b with
  | FC x, FC y => fcv_core_eqb x y
  | PC x, PC y => pcv_core_eqb x y
  | _, _ => false
  end.
Definition conceptv_eqb (a b : conceptv) : bool :=
  match a, b with
  | FC x, FC y => fcv_eqb x y
  | PC x, PC y => pcv_eqb x y
  | _, _ => false
  end.

(* what from_dict makes of the measures: every top-level key except Ext / Int, i.e.
   Supp, the measures, Context_Hash (and Monotone) *)
Definition fc_measures_after (c : fcv) : list (str * jv) :=
  dset s_Monotone (JBool (fv_mono c))
       (dset s_Context_Hash (jhash (fv_hash c))
             (fold_left (fun d kv => dset (fst kv) (snd kv) d) (fv_measures c)
                        [(s_Supp, jnat (length (fv_extent_i c)))])).

(* the same for a PatternConcept: Supp, the measures, Context_Hash *)
Definition pc_measures_after (c : pcv) : list (str * jv) :=
  dset s_Context_Hash (jhash (pv_hash c))
       (fold_left (fun d kv => dset (fst kv) (snd kv) d) (pv_measures c)
                  [(s_Supp, jnat (length (pv_extent_i c)))]).

Definition concept_measures (c : conceptv) : list (str * jv) :=
  match c with FC f => fv_measures f | PC p => pv_measures p end.
Definition concept_measures_after (c : conceptv) : list (str * jv) :=
  match c with FC f => fc_measures_after f | PC p => pc_measures_after p end.

(* ---------------------------------------------------------------- admissible inputs *)

Definition has_char (c : N) (s : str) : bool := existsb (N.eqb c) s.

Definition table_okb (K : sctx) : bool :=
  let t := sc_table K in
  Nat.ltb 0 (length t) && Nat.ltb 0 (t_width t)
  && forallb (fun r => Nat.eqb (length r) (t_width t)) t
  && Nat.eqb (length (sc_onames K)) (length t) && Nat.eqb (length (sc_anames K)) (t_width t).

(* cxt: no name contains a newline, no name is empty, the first object name does not start with
   white space (str.strip() of the block of lines) *)
Definition cxt_name_okb (s : str) : bool := negb (has_char NL s) && match s with [] => false | _ => true end.
Definition cxt_admissibleb (K : sctx) : bool :=
  table_okb K
  && forallb cxt_name_okb (sc_onames K) && forallb cxt_name_okb (sc_anames K)
  && match sc_onames K with (c :: _) :: _ => negb (is_space c) | _ => false end.

(* csv (one-character separator): no name contains the separator or a line break, the two words
   are distinct and contain neither the separator nor a line break, the separator is not a line
   break.  White space is allowed everywhere (read_csv strips '\n' only, since bd678e6). *)
Definition CR : N := 13%N.
Definition csv_name_okb (sep : N) (s : str) : bool :=
  negb (has_char sep s) && negb (has_char NL s) && negb (has_char CR s).
Definition csv_word_okb (sep : N) (w : str) : bool :=
  negb (has_char sep w) && negb (has_char NL w) && negb (has_char CR w).
Definition csv_admissibleb (sep : N) (wt wf : str) (K : sctx) : bool :=
  table_okb K && negb (N.eqb sep NL) && negb (N.eqb sep CR)
  && forallb (csv_name_okb sep) (sc_onames K) && forallb (csv_name_okb sep) (sc_anames K)
  && csv_word_okb sep wt && csv_word_okb sep wf && negb (str_eqb wt wf).

(* many-valued: sizes agree, attribute names are distinct (they key a dict), cells fit their
   structure, integer sets are canonical *)
Fixpoint str_nodupb (l : list str) : bool :=
  match l with [] => true | x :: l' => negb (existsb (str_eqb x) l') && str_nodupb l' end.
Fixpoint z_increasingb (l : list Z) : bool :=
  match l with
  | [] => true
  | x :: l' => match l' with [] => true | y :: _ => Z.ltb x y && z_increasingb l' end
  end.
Definition cell_canonb (c : cellv) : bool := match c with CSet l => z_increasingb l | _ => true end.
Definition mv_admissibleb (K : smv) : bool :=
  Nat.ltb 0 (length (sm_rows K)) && Nat.ltb 0 (length (sm_ptypes K))
  && Nat.eqb (length (sm_onames K)) (length (sm_rows K))
  && Nat.eqb (length (sm_anames K)) (length (sm_ptypes K)) && str_nodupb (sm_anames K)
  && forallb (fun row => Nat.eqb (length row) (length (sm_ptypes K))
                         && forallb (fun pc => cell_ok (fst pc) (snd pc) && cell_canonb (snd pc))
                                    (combine (sm_ptypes K) row)) (sm_rows K).

(* a formal concept as the library derives it from a context with the given name orders:
   increasing indexes, names = the names at those indexes, distinct names in the orders,
   measure keys distinct and different from the reserved keys *)
Fixpoint nat_increasingb (l : list nat) : bool :=
  match l with
  | [] => true
  | x :: l' => match l' with [] => true | y :: _ => Nat.ltb x y && nat_increasingb l' end
  end.
Definition names_at (order : list str) (idx : list nat) : list str := map (fun i => nth i order []) idx.
Definition reserved_key (k : str) : bool :=
  str_eqb k s_Ext || str_eqb k s_Int || str_eqb k s_Supp || str_eqb k s_Context_Hash || str_eqb k s_Monotone.
Definition meas_okb (m : list (str * jv)) : bool :=
  str_nodupb (map fst m) && forallb (fun kv => negb (reserved_key (fst kv))) m.
Definition fc_admissibleb (objs attrs : list str) (c : fcv) : bool :=
  str_nodupb objs && str_nodupb attrs
  && nat_increasingb (fv_extent_i c) && forallb (fun i => Nat.ltb i (length objs)) (fv_extent_i c)
  && nat_increasingb (fv_intent_i c) && forallb (fun i => Nat.ltb i (length attrs)) (fv_intent_i c)
  && strs_eqb (fv_extent c) (names_at objs (fv_extent_i c))
  && strs_eqb (fv_intent c) (names_at attrs (fv_intent_i c))
  && meas_okb (fv_measures c).

Definition pc_admissibleb (c : pcv) : bool :=
  Nat.eqb (length (pv_extent_i c)) (length (pv_extent c))
  && Nat.eqb (length (pv_intent c)) (length (pv_ptypes c))
  && Nat.eqb (length (pv_anames c)) (length (pv_ptypes c)) && str_nodupb (pv_anames c)
  && forallb (fun pc => desc_ok (fst pc) (snd pc) && cell_canonb (snd pc)) (combine (pv_ptypes c) (pv_intent c))
  && meas_okb (pv_measures c).

(* ---------------------------------------------------------------- the order of a lattice object *)

Definition c_extent (c : conceptv) : list nat :=
  match c with FC f => fv_extent_i f | PC p => pv_extent_i p end.
Definition c_mono (c : conceptv) : bool := match c with FC f => fv_mono f | PC _ => false end.

Definition nsubset (a b : list nat) : bool := forallb (fun x => mem_nat x b) a.
(* a <= b : extent inclusion, reversed for monotone concepts *)
Definition c_leq (a b : conceptv) : bool :=
  if c_mono a then nsubset (c_extent b) (c_extent a) else nsubset (c_extent a) (c_extent b).
Definition c_lt (a b : conceptv) : bool := c_leq a b && negb (c_leq b a).

Definition at_ (cs : list conceptv) (i : nat) : conceptv := nth i cs (FC (mk_fcv [] [] [] [] [] None false)).

(* lower covers of concept i: strictly below, nothing strictly between *)
Definition lower_covers (cs : list conceptv) (i : nat) : list nat :=
  let idx := seq 0 (length cs) in
  filter (fun j => c_lt (at_ cs j) (at_ cs i)
                   && negb (existsb (fun k => c_lt (at_ cs j) (at_ cs k) && c_lt (at_ cs k) (at_ cs i)) idx)) idx.
Definition derived_children (cs : list conceptv) : list (nat * list nat) :=
  map (fun i => (i, lower_covers cs i)) (seq 0 (length cs)).
Definition is_top (cs : list conceptv) (i : nat) : bool := forallb (fun c => c_leq c (at_ cs i)) cs.
Definition is_bottom (cs : list conceptv) (i : nat) : bool := forallb (fun c => c_leq (at_ cs i) c) cs.

Definition children_eqb :=
  list_eqb_g (fun (x y : nat * list nat) => Nat.eqb (fst x) (fst y) && nats_eqb (snd x) (snd y)).

(* the written lattice is a genuine one: its children are the lower covers of its concepts, its
   top / bottom are the greatest / least concept; concepts all of one class and admissible *)
Definition lat_admissibleb (objs attrs : list str) (L : latv) : bool :=
  Nat.leb 3 (length (lv_concepts L))
  && children_eqb (lv_children L) (derived_children (lv_concepts L))
  && Nat.ltb (lv_top L) (length (lv_concepts L)) && is_top (lv_concepts L) (lv_top L)
  && Nat.ltb (lv_bottom L) (length (lv_concepts L)) && is_bottom (lv_concepts L) (lv_bottom L)
  && match lv_concepts L with
     | PC _ :: _ => forallb (fun c => match c with PC p => pc_admissibleb p | _ => false end) (lv_concepts L)
     | _ => forallb (fun c => match c with FC f => fc_admissibleb objs attrs f | _ => false end) (lv_concepts L)
     end.

(* Spec/Covers.v — the cover relation of a finite strict order given on indexes 0..n-1 by a
   boolean comparison [lt i j] ("element i is strictly below element j"), by definition:
   x is a lower cover of a iff x < a and no b of the list has x < b < a.  Used by C12 (order
   construction) and C17 (tracing).  Independent of every model of the code. *)
From FCA Require Export Base.ListSet.

Section CoverSpec.
Variable lt : nat -> nat -> bool.
Variable n : nat.

Definition between (x a : nat) : bool := existsb (fun b => lt x b && lt b a) (seq 0 n).
Definition is_lower_cover (a x : nat) : bool := lt x a && negb (between x a).
Definition lower_covers (a : nat) : list nat := filter (is_lower_cover a) (seq 0 n).
Definition upper_covers (a : nat) : list nat := filter (fun x => is_lower_cover x a) (seq 0 n).
Definition strict_up (a : nat) : list nat := filter (fun x => lt a x) (seq 0 n).
Definition strict_down (a : nat) : list nat := filter (fun x => lt x a) (seq 0 n).

(* greatest / least element of the list *)
Definition is_top (t : nat) : Prop := t < n /\ forall i, i < n -> i <> t -> lt i t = true.
Definition is_bottom (b : nat) : Prop := b < n /\ forall i, i < n -> i <> b -> lt b i = true.
Definition is_topb (t : nat) : bool :=
  Nat.ltb t n && forallb (fun i => Nat.eqb i t || lt i t) (seq 0 n).
Definition is_bottomb (b : nat) : bool :=
  Nat.ltb b n && forallb (fun i => Nat.eqb i b || lt b i) (seq 0 n).

(* a strict partial order on the indexes below n *)
Definition strict_order : Prop :=
  (forall i, i < n -> lt i i = false) /\
  (forall i j k, i < n -> j < n -> k < n -> lt i j = true -> lt j k = true -> lt i k = true).
Definition strict_orderb : bool :=
  forallb (fun i => negb (lt i i)) (seq 0 n) &&
  forallb (fun i => forallb (fun j => forallb (fun k =>
     negb (lt i j && lt j k) || lt i k) (seq 0 n)) (seq 0 n)) (seq 0 n).
End CoverSpec.

(* the order of extent inclusion on a list of extents (duplicate-free index lists) *)
Definition incl_lt (cs : list (list nat)) (i j : nat) : bool :=
  let a := nth i cs [] in let b := nth j cs [] in subsetb a b && negb (subsetb b a).

(* Spec/DualitySpec.v — property C06: what transposition, complement, relabelling and the
   monotone lattice MEAN, on plain tables and index lists; independent of Model/Duality.v. *)
From FCA Require Export Spec.Closure.

(* ------------------------------------------------------------------ transpose / complement *)

Definition is_transpose (t t' : table) : Prop :=
  height t' = width t /\ Forall (fun r => length r = height t) t' /\
  forall i j, i < height t -> j < width t -> I t' j i = I t i j.

Definition is_transposeb (t t' : table) : bool :=
  Nat.eqb (height t') (width t) && forallb (fun r => Nat.eqb (length r) (height t)) t' &&
  forallb (fun i => forallb (fun j => Bool.eqb (I t' j i) (I t i j)) (seq 0 (width t)))
          (seq 0 (height t)).

Definition is_complementb (t t' : table) : bool :=
  Nat.eqb (height t') (height t) && forallb (fun r => Nat.eqb (length r) (width t)) t' &&
  forallb (fun i => forallb (fun j => Bool.eqb (I t' i j) (negb (I t i j))) (seq 0 (width t)))
          (seq 0 (height t)).

(* a table without rows, or with at least one column (numpy cannot hold n x 0 tables and
   FormalContext.T rejects them on the other back-ends) *)
Definition nondegenerate (t : table) : Prop := width t = 0 -> height t = 0.
Definition nondegenerateb (t : table) : bool := negb (Nat.eqb (width t) 0) || Nat.eqb (height t) 0.

(* ------------------------------------------------------------------ orders and covers *)

(* [if] rather than [&&]: vm_compute evaluates both arguments of andb *)
Definition strict_subb (a b : list nat) : bool := if subsetb a b then negb (subsetb b a) else false.
Definition strict_sub (a b : list nat) : Prop := incl a b /\ ~ incl b a.

(* j is a lower cover of i in the strict order R on the indexes below n *)
Definition cover (R : nat -> nat -> Prop) (n j i : nat) : Prop :=
  R j i /\ forall k, k < n -> ~ (R j k /\ R k i).

(* the elements strictly below i that have nothing of that set strictly above them *)
Definition lower_covers (lt : nat -> nat -> bool) (n i : nat) : list nat :=
  let below := filter (fun j => lt j i) (seq 0 n) in
  filter (fun j => forallb (fun k => negb (lt j k)) below) below.

(* inclusion order on a list of extents, by index *)
Definition ext_ltb (E : list (list nat)) (j i : nat) : bool := strict_subb (nth j E []) (nth i E []).
Definition ext_lt (E : list (list nat)) (j i : nat) : Prop := strict_sub (nth j E []) (nth i E []).
Definition covers_spec (E : list (list nat)) : list (list nat) :=
  map (lower_covers (ext_ltb E) (length E)) (seq 0 (length E)).

(* cover relation on a set of extents, independent of any indexing *)
Definition ext_cover (E : list (list nat)) (X Y : list nat) : Prop :=
  In X E /\ In Y E /\ strict_sub X Y /\ forall Z, In Z E -> ~ (strict_sub X Z /\ strict_sub Z Y).

(* ------------------------------------------------------------------ monotone concepts *)

Definition ext_mono (t : table) (B : list nat) : list nat := ext_mono_spec t B (all_objs t).
Definition int_mono (t : table) (A : list nat) : list nat := int_mono_spec t A (all_attrs t).
(* A = the objects having some attribute of B;  B = the attributes no object outside A has *)
Definition is_mono_pair (t : table) (A B : list nat) : Prop := A = ext_mono t B /\ B = int_mono t A.

Definition mono_pairs_spec (t : table) : list (list nat * list nat) :=
  map (fun B => (ext_mono t B, B))
      (filter (fun B => nat_list_eqb (int_mono t (ext_mono t B)) B) (sublists (all_attrs t))).

(* ------------------------------------------------------------------ relabelling *)

(* rows listed by ps, columns listed by pc: new cell (i, j) = old cell (ps[i], pc[j]) *)
Definition relabel_table (ps pc : list nat) (t : table) : table :=
  map (fun i => map (fun j => cell t i j) pc) ps.

Definition is_perm (n : nat) (p : list nat) : Prop := NoDup p /\ length p = n /\ in_range n p.
Definition is_permb (n : nat) (p : list nat) : bool :=
  Nat.eqb (length p) n && in_rangeb n p && forallb (fun x => mem x p) (seq 0 n).

(* new indexes of an old index set: { g < n | p[g] in A }, canonical *)
Definition pull (p : list nat) (n : nat) (A : list nat) : list nat :=
  filter (fun g => mem (nth g p 0) A) (seq 0 n).

(* ------------------------------------------------------------------ comparing as sets *)

Definition set_eqb (a b : list nat) : bool := same_setb a b && Nat.eqb (length a) (length b).
Definition pair_eqb (x y : list nat * list nat) : bool :=
  set_eqb (fst x) (fst y) && set_eqb (snd x) (snd y).
Definition pairs_subset (a b : list (list nat * list nat)) : bool :=
  forallb (fun x => existsb (pair_eqb x) b) a.
Definition pairs_same (a b : list (list nat * list nat)) : bool :=
  pairs_subset a b && pairs_subset b a && Nat.eqb (length a) (length b).

(* the cover relation of an indexed family as a list of (lower extent, upper extent) *)
Definition cover_pairs (E : list (list nat)) (ch : list (list nat)) : list (list nat * list nat) :=
  flat_map (fun i => map (fun j => (nth j E [], nth i E [])) (nth i ch [])) (seq 0 (length E)).

(* children lists equal position-wise as sets *)
Definition children_same (a b : list (list nat)) : bool :=
  Nat.eqb (length a) (length b) && forallb (fun xy => set_eqb (fst xy) (snd xy)) (combine a b).

(* Spec/MVLatticeSpec.v — what C14 talks about: the closure of an object set in a many-valued
   table (Spec/PatternSpec.v), the set of pattern concepts = closed object sets with their most
   specific descriptions, the inclusion covers, and the closure system of a boolean table
   (Spec/Closure.v) used to compare the binarised context.  No reference to the model of
   MVContext / close_by_one. *)
From FCA Require Export Spec.Closure Spec.PatternSpec.

(* closed object sets: closures of ALL subsets; the empty set is closed through the pinned
   conventions (its "closure" is the extension of the conventional descriptions, which is a
   closed set whenever it is not empty) *)
Definition mv_extents_spec (K : mvtable) (n : nat) : list (list nat) :=
  nodup_lists (map (mv_cl_spec K n) (sublists (seq 0 n))).

Definition mv_concepts_spec (K : mvtable) (n : nat) : list (list nat * list desc) :=
  map (fun E => (E, mv_int_spec K E)) (mv_extents_spec K n).

Definition strict_sub (a b : list nat) : bool := subsetb a b && negb (subsetb b a).

(* (smaller, larger) pairs with nothing strictly between *)
Definition covers_spec (exts : list (list nat)) : list (list nat * list nat) :=
  flat_map (fun a =>
    map (fun b => (a, b))
        (filter (fun b => strict_sub a b
                          && negb (existsb (fun c => strict_sub a c && strict_sub c b) exts)) exts))
    exts.

Definition descs_eqb (a b : list desc) : bool := list_eqb desc_eqb a b.

Definition concept_eqb (a b : list nat * list desc) : bool :=
  same_setb (fst a) (fst b) && descs_eqb (snd a) (snd b).

Definition concepts_same_set (a b : list (list nat * list desc)) : bool :=
  forallb (fun x => existsb (concept_eqb x) b) a && forallb (fun y => existsb (concept_eqb y) a) b.

Fixpoint no_dup_extents (l : list (list nat * list desc)) : bool :=
  match l with
  | [] => true
  | c :: rest => negb (existsb (fun c' => same_setb (fst c) (fst c')) rest) && no_dup_extents rest
  end.

Definition pair_eqb (a b : list nat * list nat) : bool :=
  same_setb (fst a) (fst b) && same_setb (snd a) (snd b).
Definition pairs_same_set (a b : list (list nat * list nat)) : bool :=
  forallb (fun x => existsb (pair_eqb x) b) a && forallb (fun y => existsb (pair_eqb y) a) b.

(* the closure of an object set in a boolean table, for every non-empty subset *)
Definition bin_same_closures (K : mvtable) (n : nat) (t : table) : bool :=
  forallb (fun A => match A with
                    | [] => true
                    | _ => nat_list_eqb (cl_obj t A) (mv_cl_spec K n A)
                    end) (sublists (seq 0 n)).

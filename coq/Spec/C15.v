(* Spec/C15.v — what property C15 talks about, independent of the models of the code:
   pattern concepts of a many-valued context with interval columns (containment filter and
   min/max description), the set of all pattern extents, the rows reaching a node of a decision
   tree, and the executable predicates the correspondence evaluates on the implementation's
   output (genuine / distinct / top and least / support / limit / all-when-not-binding). *)
From Coq Require Import QArith.
From FCA Require Export Spec.Closure.
From FCA Require Export Model.TreeExtents.
Local Open Scope nat_scope.

(* ------------------------------------------------------------ interval pattern structures *)

Definition ival_in (d : option ival) (v : ival) : bool :=
  match d with
  | None => false
  | Some (mn, mx) => (mn <=? fst v)%Z && (snd v <=? mx)%Z
  end.

(* g is covered by the description iff every column's interval of g lies inside the description's *)
Definition mv_covers (K : mvctx) (ds : descr) (g : nat) : bool :=
  forallb (fun cd => ival_in (snd cd) (cellv (fst cd) g)) (combine K ds).

Definition mv_ext_spec (K : mvctx) (ds : descr) : list nat := filter (mv_covers K ds) (seq 0 (mv_nobj K)).

Definition col_int_spec (c : icol) (A : list nat) : option ival :=
  match A with
  | [] => None
  | g :: A' => Some (fold_right Z.min (fst (cellv c g)) (map (fun g' => fst (cellv c g')) A'),
                     fold_right Z.max (snd (cellv c g)) (map (fun g' => snd (cellv c g')) A'))
  end.
Definition mv_int_spec (K : mvctx) (A : list nat) : descr := map (fun c => col_int_spec c A) K.

Definition mv_is_concept (K : mvctx) (A : list nat) (ds : descr) : Prop :=
  A = mv_ext_spec K ds /\ ds = mv_int_spec K A.

Definition ival_eqb (a b : ival) : bool := (fst a =? fst b)%Z && (snd a =? snd b)%Z.
Definition oival_eqb (a b : option ival) : bool :=
  match a, b with Some x, Some y => ival_eqb x y | None, None => true | _, _ => false end.
Definition descr_eqb : descr -> descr -> bool := list_eqb oival_eqb.

Definition mv_is_conceptb (K : mvctx) (A : list nat) (ds : descr) : bool :=
  nat_list_eqb A (mv_ext_spec K ds) && descr_eqb ds (mv_int_spec K A).

Definition mv_cl (K : mvctx) (A : list nat) : list nat := mv_ext_spec K (mv_int_spec K A).
Definition mv_extents_spec (K : mvctx) : list (list nat) :=
  nodup_lists (map (mv_cl K) (sublists (seq 0 (mv_nobj K)))).

(* well-formed: at least one column, all columns of the same length *)
Definition mv_wf (K : mvctx) : Prop := K <> [] /\ Forall (fun c => length c = mv_nobj K) K.
Definition mv_wfb (K : mvctx) : bool :=
  negb (Nat.eqb (length K) 0) && forallb (fun c => Nat.eqb (length c) (mv_nobj K)) K.
(* every cell is a point *)
Definition mv_points (K : mvctx) : Prop := Forall (Forall (fun v : ival => fst v = snd v)) K.

(* ------------------------------------------------------------ decision trees *)

(* a node is addressed by the directions taken from the root (true = left) *)
Fixpoint reaches (t : tree) (p : list bool) (x : xrow) {struct p} : bool :=
  match p with
  | [] => true
  | dir :: p' =>
      match t with
      | Leaf => false
      | Node f thr l r =>
          if dir then goes_left x f thr && reaches l p' x
          else negb (goes_left x f thr) && reaches r p' x
      end
  end.

Fixpoint node_paths (t : tree) : list (list bool) :=
  match t with
  | Leaf => [[]]
  | Node _ _ l r => [] :: map (cons true) (node_paths l) ++ map (cons false) (node_paths r)
  end.

Definition rows_reaching (t : tree) (p : list bool) (X : list xrow) : list nat :=
  filter (fun i => reaches t p (nth i X [])) (seq 0 (length X)).

Definition tree_extents_spec (ts : list tree) (X : list xrow) : list (list nat) :=
  nodup_lists (flat_map (fun t => map (fun p => rows_reaching t p X) (node_paths t)) ts).

(* ------------------------------------------------------------ executable predicates *)

Fixpoint nodupb (l : list (list nat)) : bool :=
  match l with
  | [] => true
  | x :: l' => negb (existsb (nat_list_eqb x) l') && nodupb l'
  end.
Definition lists_subset (a b : list (list nat)) : bool := forallb (fun x => existsb (nat_list_eqb x) b) a.
Definition lists_same_set (a b : list (list nat)) : bool := lists_subset a b && lists_subset b a.

(* the full object set is present; the first extent lies inside every other *)
Definition top_least_ok (n : nat) (exts : list (list nat)) : bool :=
  existsb (nat_list_eqb (seq 0 n)) exts &&
  match exts with [] => false | e0 :: rest => forallb (subsetb e0) rest end.

(* every extent other than the first and the last meets the threshold *)
Definition support_ok (ms : Q) (exts : list (list nat)) : bool :=
  forallb (fun e => Qle_bool ms (inject_Z (Z.of_nat (length e)))) (removelast (tl exts)).

Definition limit_ok (L : nat) (exts : list (list nat)) : bool :=
  (L =? 0) || (length exts <=? L + 2).

(* no support threshold and the limit at least the number of all extents: all of them *)
Definition exact_ok (ms : Q) (L : nat) (all exts : list (list nat)) : bool :=
  if Qle_bool ms 0%Q && (length all <=? L) then lists_same_set exts all else true.

(* unique greatest and unique least element under inclusion *)
Definition lattice_shape_ok (exts : list (list nat)) : bool :=
  existsb (fun top => forallb (fun e => subsetb e top) exts) exts &&
  existsb (fun bot => forallb (fun e => subsetb bot e) exts) exts.

Definition ms_eff (ms : Q) (n : nat) : Q :=
  if Qle_bool 1%Q ms then ms else (ms * inject_Z (Z.of_nat n))%Q.

Definition sofia_spec_ok (n : nat) (all : list (list nat)) (ms : Q) (L : nat) (exts : list (list nat)) : bool :=
  nodupb exts && top_least_ok n exts && support_ok (ms_eff ms n) exts && limit_ok L exts
  && exact_ok (ms_eff ms n) L all exts && lattice_shape_ok exts.

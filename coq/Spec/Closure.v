(* Spec/Closure.v — Galois connection facts about the prime operators of a table, closed
   sets, formal concepts and the enumeration of all concepts (the oracle of C02-C04, C06, C08,
   C16-C18).  Sets of indexes are [list nat]; set-level statements use [incl]/[same_set],
   canonical (sorted, duplicate-free) representatives are produced by filtering [seq]. *)
From FCA Require Export Spec.Galois.

Definition ext (t : table) (B : list nat) : list nat := ext_spec t B (all_objs t).
Definition int (t : table) (A : list nat) : list nat := int_spec t A (all_attrs t).
Definition cl_obj (t : table) (A : list nat) : list nat := ext t (int t A).
Definition cl_attr (t : table) (B : list nat) : list nat := int t (ext t B).

(* canonical representative of a set of indexes below n: increasing, duplicate-free *)
Definition canon_set (n : nat) (A : list nat) : list nat := filter (fun x => mem x A) (seq 0 n).

Definition is_concept (t : table) (A B : list nat) : Prop := A = ext t B /\ B = int t A.
Definition is_conceptb (t : table) (A B : list nat) : bool :=
  nat_list_eqb A (ext t B) && nat_list_eqb B (int t A).

(* power set, in the order of itertools-like enumeration (not relied upon) *)
Fixpoint sublists {A} (l : list A) : list (list A) :=
  match l with
  | [] => [[]]
  | x :: l' => let r := sublists l' in r ++ map (cons x) r
  end.

Fixpoint nodup_lists (l : list (list nat)) : list (list nat) :=
  match l with
  | [] => []
  | x :: l' => if existsb (nat_list_eqb x) l' then nodup_lists l' else x :: nodup_lists l'
  end.

(* all extents = closures of all subsets of objects; each once *)
Definition extents_spec (t : table) : list (list nat) :=
  nodup_lists (map (cl_obj t) (sublists (all_objs t))).
Definition concepts_spec (t : table) : list (list nat * list nat) :=
  map (fun A => (A, int t A)) (extents_spec t).

(* ------------------------------------------------------------------ lemmas *)

Lemma ext_In t B g : In g (ext t B) <-> g < height t /\ forall m, In m B -> I t g m = true.
Proof.
  unfold ext, ext_spec, all_objs. rewrite filter_In, in_seq, forallb_forall. split.
  - intros [H1 H2]. split; [lia | exact H2].
  - intros [H1 H2]. split; [lia | exact H2].
Qed.

Lemma int_In t A m : In m (int t A) <-> m < width t /\ forall g, In g A -> I t g m = true.
Proof.
  unfold int, int_spec, all_attrs. rewrite filter_In, in_seq, forallb_forall. split.
  - intros [H1 H2]. split; [lia | exact H2].
  - intros [H1 H2]. split; [lia | exact H2].
Qed.

Lemma ext_antitone t B1 B2 : incl B1 B2 -> incl (ext t B2) (ext t B1).
Proof. intros H g. rewrite !ext_In. intros [Hg Hall]. split; [exact Hg|]. intros m Hm. apply Hall, H, Hm. Qed.

Lemma int_antitone t A1 A2 : incl A1 A2 -> incl (int t A2) (int t A1).
Proof. intros H m. rewrite !int_In. intros [Hm Hall]. split; [exact Hm|]. intros g Hg. apply Hall, H, Hg. Qed.

Lemma ext_int_extensive t A : in_range (height t) A -> incl A (cl_obj t A).
Proof.
  intros Hr g Hg. unfold cl_obj. apply ext_In. split; [apply Hr; exact Hg|].
  intros m Hm. apply int_In in Hm. destruct Hm as [_ Hm]. apply Hm. exact Hg.
Qed.

Lemma int_ext_extensive t B : in_range (width t) B -> incl B (cl_attr t B).
Proof.
  intros Hr m Hm. unfold cl_attr. apply int_In. split; [apply Hr; exact Hm|].
  intros g Hg. apply ext_In in Hg. destruct Hg as [_ Hg]. apply Hg. exact Hm.
Qed.

Lemma ext_in_range t B : in_range (height t) (ext t B).
Proof. intros g Hg. apply ext_In in Hg. tauto. Qed.
Lemma int_in_range t A : in_range (width t) (int t A).
Proof. intros m Hm. apply int_In in Hm. tauto. Qed.

(* a filter of [seq] is determined by its members *)
Lemma filter_seq_ext (p q : nat -> bool) n :
  (forall x, x < n -> p x = q x) -> filter p (seq 0 n) = filter q (seq 0 n).
Proof. intros H. apply filter_ext_in'. intros x Hx. apply in_seq in Hx. apply H. lia. Qed.

Lemma ext_ext_set t B1 B2 : same_set (ext t B1) (ext t B2) -> ext t B1 = ext t B2.
Proof.
  intros H. unfold ext, ext_spec, all_objs. apply filter_seq_ext. intros g Hg.
  apply bool_eq_iff. split; intros Hp.
  - assert (X : In g (ext t B1)) by (apply filter_In; split; [apply in_seq; lia | exact Hp]).
    apply H in X. apply filter_In in X. tauto.
  - assert (X : In g (ext t B2)) by (apply filter_In; split; [apply in_seq; lia | exact Hp]).
    apply H in X. apply filter_In in X. tauto.
Qed.

Lemma int_int_set t A1 A2 : same_set (int t A1) (int t A2) -> int t A1 = int t A2.
Proof.
  intros H. unfold int, int_spec, all_attrs. apply filter_seq_ext. intros g Hg.
  apply bool_eq_iff. split; intros Hp.
  - assert (X : In g (int t A1)) by (apply filter_In; split; [apply in_seq; lia | exact Hp]).
    apply H in X. apply filter_In in X. tauto.
  - assert (X : In g (int t A2)) by (apply filter_In; split; [apply in_seq; lia | exact Hp]).
    apply H in X. apply filter_In in X. tauto.
Qed.

(* ' ''' = ' : the triple-prime law, as an equality of canonical lists *)
Lemma ext_int_ext t B : in_range (width t) B -> ext t (int t (ext t B)) = ext t B.
Proof.
  intros HB. apply ext_ext_set. intros g. split; intros Hg.
  - revert g Hg. apply ext_antitone. apply int_ext_extensive. exact HB.
  - apply (ext_int_extensive t (ext t B)); [apply ext_in_range | exact Hg].
Qed.

Lemma int_ext_int t A : in_range (height t) A -> int t (ext t (int t A)) = int t A.
Proof.
  intros HA. apply int_int_set. intros m. split; intros Hm.
  - revert m Hm. apply int_antitone. apply ext_int_extensive. exact HA.
  - apply (int_ext_extensive t (int t A)); [apply int_in_range | exact Hm].
Qed.

Lemma cl_obj_idempotent t A : in_range (height t) A -> cl_obj t (cl_obj t A) = cl_obj t A.
Proof. intros HA. unfold cl_obj. rewrite int_ext_int by exact HA. reflexivity. Qed.

Lemma cl_obj_monotone t A1 A2 : incl A1 A2 -> incl (cl_obj t A1) (cl_obj t A2).
Proof. intros H. unfold cl_obj. apply ext_antitone, int_antitone, H. Qed.

(* (A'', A') is a concept for every in-range A; every concept arises this way *)
Lemma closure_is_concept t A : in_range (height t) A -> is_concept t (cl_obj t A) (int t A).
Proof.
  intros HA. split; [reflexivity|]. unfold cl_obj. symmetry. apply int_ext_int. exact HA.
Qed.

Lemma concept_extent_closed t A B : is_concept t A B -> cl_obj t A = A.
Proof. intros [HA HB]. unfold cl_obj. rewrite <- HB. symmetry. exact HA. Qed.

Lemma is_conceptb_spec t A B : is_conceptb t A B = true <-> is_concept t A B.
Proof. unfold is_conceptb, is_concept. rewrite andb_true_iff, !nat_list_eqb_eq. tauto. Qed.

Lemma filter_filter' {A} (p q : A -> bool) l :
  filter p (filter q l) = filter (fun x => q x && p x) l.
Proof.
  induction l as [|x l IH]; simpl; [reflexivity|].
  destruct (q x); simpl; [destruct (p x)|]; rewrite IH; reflexivity.
Qed.

(* intersection of two extents is an extent *)
Lemma ext_app t B1 B2 : ext t (B1 ++ B2) = filter (fun g => mem g (ext t B2)) (ext t B1).
Proof.
  unfold ext at 1 3. unfold ext_spec, all_objs. rewrite filter_filter'.
  apply filter_seq_ext. intros g Hg. rewrite forallb_app.
  f_equal. apply bool_eq_iff. rewrite mem_In, ext_In, forallb_forall. split.
  - intros H. split; [exact Hg | exact H].
  - intros [_ H]. exact H.
Qed.

(* ---------- power set *)
Lemma In_sublists {A} (l s : list A) : In s (sublists l) -> incl s l.
Proof.
  revert s. induction l as [|x l IH]; simpl; intros s H.
  - destruct H as [H|[]]. subst. intros y [].
  - apply in_app_or in H. destruct H as [H|H].
    + intros y Hy. right. apply (IH s H). exact Hy.
    + apply in_map_iff in H. destruct H as [s' [E H]]. subst. intros y [Hy|Hy].
      * left. exact Hy.
      * right. apply (IH s' H). exact Hy.
Qed.

(* every subset (as a set) has a representative sub-list: its filter *)
Lemma filter_In_sublists {A} (p : A -> bool) (l : list A) : In (filter p l) (sublists l).
Proof.
  induction l as [|x l IH]; simpl; [left; reflexivity|].
  apply in_or_app. destruct (p x).
  - right. apply in_map. exact IH.
  - left. exact IH.
Qed.

Lemma sublists_length {A} (l : list A) : length (sublists l) = 2 ^ length l.
Proof.
  induction l as [|x l IH]; simpl; [reflexivity|].
  rewrite app_length, map_length, IH. lia.
Qed.

Lemma canon_set_In n A x : In x (canon_set n A) <-> x < n /\ In x A.
Proof. unfold canon_set. rewrite filter_In, in_seq, mem_In. split; intros [H1 H2]; split; auto; lia. Qed.

Lemma ext_canon t B g : mem g (ext t B) = (Nat.ltb g (height t) && forallb (fun m => I t g m) B).
Proof.
  apply bool_eq_iff. rewrite mem_In, ext_In, andb_true_iff, Nat.ltb_lt, forallb_forall. tauto.
Qed.

(* int/ext only depend on the argument as a set *)
Lemma int_same_set t A1 A2 : same_set A1 A2 -> int t A1 = int t A2.
Proof.
  intros H. apply int_int_set. intros m. rewrite !int_In. split; intros [Hm Hall]; split; auto;
    intros g Hg; apply Hall, H, Hg.
Qed.
Lemma ext_same_set t B1 B2 : same_set B1 B2 -> ext t B1 = ext t B2.
Proof.
  intros H. apply ext_ext_set. intros m. rewrite !ext_In. split; intros [Hm Hall]; split; auto;
    intros g Hg; apply Hall, H, Hg.
Qed.

Lemma nodup_lists_In l x : In x (nodup_lists l) <-> In x l.
Proof.
  induction l as [|y l IH]; simpl; [tauto|].
  destruct (existsb (nat_list_eqb y) l) eqn:E.
  - rewrite IH. split; [auto|]. intros [H|H]; [|exact H]. subst.
    apply existsb_exists in E. destruct E as [z [Hz Ez]]. apply nat_list_eqb_eq in Ez. subst. exact Hz.
  - simpl. rewrite IH. tauto.
Qed.

Lemma nodup_lists_NoDup l : NoDup (nodup_lists l).
Proof.
  induction l as [|y l IH]; simpl; [constructor|].
  destruct (existsb (nat_list_eqb y) l) eqn:E; [exact IH|].
  constructor; [|exact IH]. rewrite nodup_lists_In. intros H.
  assert (X : existsb (nat_list_eqb y) l = true).
  { apply existsb_exists. exists y. split; [exact H | apply nat_list_eqb_eq; reflexivity]. }
  congruence.
Qed.

(* the oracle is exactly the set of extents *)
Theorem extents_spec_complete t A :
  In A (extents_spec t) <-> exists B, in_range (width t) B /\ A = ext t B.
Proof.
  unfold extents_spec. rewrite nodup_lists_In, in_map_iff. split.
  - intros [S [E HS]]. subst. exists (int t S). split; [apply int_in_range | reflexivity].
  - intros [B [HB E]]. subst. exists (ext t B). split.
    + unfold cl_obj. apply ext_int_ext. exact HB.
    + unfold ext, ext_spec. apply filter_In_sublists.
Qed.

Theorem concepts_spec_complete t A B :
  In (A, B) (concepts_spec t) <-> is_concept t A B /\ in_range (width t) B.
Proof.
  unfold concepts_spec. rewrite in_map_iff. split.
  - intros [A' [E H]]. inversion E; subst. apply extents_spec_complete in H.
    destruct H as [B [HB E']]. subst. split; [|apply int_in_range].
    split; [|reflexivity]. symmetry. apply ext_int_ext. exact HB.
  - intros [[HA HB] Hr]. exists A. split; [rewrite <- HB; reflexivity|].
    apply extents_spec_complete. exists B. split; [exact Hr | exact HA].
Qed.

Theorem concepts_spec_NoDup t : NoDup (map fst (concepts_spec t)).
Proof. unfold concepts_spec. rewrite map_map. simpl. rewrite map_id. apply nodup_lists_NoDup. Qed.

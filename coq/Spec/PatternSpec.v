(* Spec/PatternSpec.v — what the pattern structures mean (C13, C14): the value of an object in a
   column, "description d covers value v", the extension as a containment filter, the most
   specific description of a non-empty object set, the conventions for the empty set, and the
   product closure of a many-valued table.  Independent of the model of the code: only [nth],
   [filter], [forallb], Z.min / Z.max. *)
From FCA Require Export Model.PatternStructure.

Inductive value := VIv (v : iv) | VSet (s : sset) | VAttr (b : bool).

Definition value_at (c : column) (g : nat) : value :=
  match c with
  | CInterval data | CIntervalNp data => VIv (nth g data (0%Z, 0%Z))
  | CSet data => VSet (nth g data [])
  | CAttr data => VAttr (nth g data false)
  end.

(* d covers v.  Intervals: [a,b] covers [l,r] iff a <= l and r <= b; the empty description
   covers nothing.  Sets: s covers row iff row is a subset of s; None covers nothing.
   Attribute-like: False covers anything, True covers True. *)
Definition covers (d : desc) (v : value) : bool :=
  match d, v with
  | DIv (Some (a, b)), VIv (l, r) => ((a <=? l)%Z && (r <=? b)%Z)%bool
  | DSet (Some s), VSet row => subsetb row s
  | DAttr d, VAttr b => implb d b
  | _, _ => false
  end.

Definition all_rows (c : column) : list nat := seq 0 (col_len c).

Definition ext_ps_spec (c : column) (d : desc) (base : list nat) : list nat :=
  filter (fun g => covers d (value_at c g)) base.

(* the most specific description of a NON-EMPTY object set *)
Definition lefts (c : column) (A : list nat) : list Z :=
  map (fun g => match value_at c g with VIv (l, _) => l | _ => 0%Z end) A.
Definition rights (c : column) (A : list nat) : list Z :=
  map (fun g => match value_at c g with VIv (_, r) => r | _ => 0%Z end) A.
Definition zmin_spec (l : list Z) : Z := match l with [] => 0%Z | x :: t => fold_right Z.min x t end.
Definition zmax_spec (l : list Z) : Z := match l with [] => 0%Z | x :: t => fold_right Z.max x t end.

Definition int_ps_spec (c : column) (A : list nat) : desc :=
  match c with
  | CInterval _ | CIntervalNp _ => DIv (Some (zmin_spec (lefts c A), zmax_spec (rights c A)))
  | CSet data => DSet (Some (concat (map (fun g => nth g data []) A)))
  | CAttr data => DAttr (forallb (fun g => nth g data false) A)
  end.

(* the conventions pinned by the repository's suite for the empty object set *)
Definition empty_convention (c : column) : desc :=
  match c with
  | CInterval _ | CIntervalNp _ => DIv None
  | CSet _ => DSet (Some [])
  | CAttr _ => DAttr false
  end.

(* equality of descriptions, value sets read as sets *)
Definition iv_eqb (a b : iv) : bool := ((fst a =? fst b)%Z && (snd a =? snd b)%Z)%bool.
Definition desc_eqb (a b : desc) : bool :=
  match a, b with
  | DIv None, DIv None => true
  | DIv (Some x), DIv (Some y) => iv_eqb x y
  | DSet None, DSet None => true
  | DSet (Some x), DSet (Some y) => same_setb x y
  | DAttr x, DAttr y => Bool.eqb x y
  | _, _ => false
  end.

Fixpoint forallb2 {A B} (p : A -> B -> bool) (a : list A) (b : list B) : bool :=
  match a, b with
  | [], [] => true
  | x :: a', y :: b' => p x y && forallb2 p a' b'
  | _, _ => false
  end.

(* ------------------------------------------------------------------ many-valued tables (C14) *)
Definition mvtable := list column.

Definition mv_covers (K : mvtable) (ds : list desc) (g : nat) : bool :=
  forallb (fun cd => covers (snd cd) (value_at (fst cd) g)) (combine K ds).

Definition mv_int_spec (K : mvtable) (A : list nat) : list desc :=
  match A with
  | [] => map empty_convention K
  | _ => map (fun c => int_ps_spec c A) K
  end.

Definition mv_ext_spec (K : mvtable) (n : nat) (ds : list desc) : list nat :=
  filter (mv_covers K ds) (seq 0 n).

Definition mv_cl_spec (K : mvtable) (n : nat) (A : list nat) : list nat :=
  mv_ext_spec K n (mv_int_spec K A).

(* Spec/Galois.v — the prime (derivation) operators of a formal context, as filters. *)
From FCA Require Export Model.BinTable.

(* incidence of a table *)
Definition I (t : table) (g m : nat) : bool := cell t g m.

Definition ext_spec (t : table) (B : list nat) (base : list nat) : list nat :=
  filter (fun g => forallb (fun m => I t g m) B) base.
Definition int_spec (t : table) (A : list nat) (base : list nat) : list nat :=
  filter (fun m => forallb (fun g => I t g m) A) base.
(* monotone variants: objects having at least one attribute of B;
   attributes that no object outside A has *)
Definition ext_mono_spec (t : table) (B : list nat) (base : list nat) : list nat :=
  filter (fun g => existsb (fun m => I t g m) B) base.
Definition int_mono_spec (t : table) (A : list nat) (base : list nat) : list nat :=
  filter (fun m => forallb (fun g => negb (I t g m)) (diff (seq 0 (height t)) A)) base.

Definition all_objs (t : table) := seq 0 (height t).
Definition all_attrs (t : table) := seq 0 (width t).
Definition in_range (n : nat) (l : list nat) : Prop := forall x, In x l -> x < n.
Definition in_rangeb (n : nat) (l : list nat) : bool := forallb (fun x => Nat.ltb x n) l.
Definition opt_in_range (n : nat) (o : option (list nat)) : Prop :=
  match o with None => True | Some l => in_range n l end.

Lemma in_rangeb_spec n l : in_rangeb n l = true <-> in_range n l.
Proof.
  unfold in_rangeb, in_range. rewrite forallb_forall. split; intros H x Hx.
  - apply Nat.ltb_lt. apply H. exact Hx.
  - apply Nat.ltb_lt. apply H. exact Hx.
Qed.

(* Spec/PosetSpec.v — the cache-free meaning of every poset query (properties C09, C10, C11).

   A poset is nothing but a duplicate-free list of elements [els] of a carrier [E] with a
   comparison [leq : E -> E -> bool].  Every answer below is a plain filter over the index range
   [seq 0 (length els)]; nothing here mentions a cache, a work list or fuel.
   Index sets are listed in ascending order (the canonical listing of a Python set of ints). *)
From FCA Require Export Base.ListSet.

Section PosetSpec.
  Variable E : Type.
  Variable leq : E -> E -> bool.
  Variable eqb : E -> E -> bool.

  (* comparison of two elements given by index; out-of-range indexes are outside every theorem *)
  Definition lq (els : list E) (a b : nat) : bool :=
    match nth_error els a, nth_error els b with
    | Some x, Some y => leq x y
    | _, _ => false
    end.

  (* [ldir true i j]  = i <= j   (looking up);   [ldir false i j] = j <= i   (looking down) *)
  Definition ldir (els : list E) (up : bool) (i j : nat) : bool :=
    if up then lq els i j else lq els j i.

  Definition idxs (els : list E) : list nat := seq 0 (length els).

  (* strict up-set (ancestors) / strict down-set (descendants) of element #i *)
  Definition strict_rel (els : list E) (up : bool) (i : nat) : list nat :=
    filter (fun j => ldir els up i j && negb (Nat.eqb j i)) (idxs els).

  (* upper covers (parents) / lower covers (children): strict relatives with nothing in between *)
  Definition covers (els : list E) (up : bool) (i : nat) : list nat :=
    filter (fun j => negb (existsb (fun k => mem j (strict_rel els up k)) (strict_rel els up i)))
           (strict_rel els up i).

  (* maximal (tops) / minimal (bottoms) elements *)
  Definition extremes (els : list E) (up : bool) : list nat :=
    filter (fun i => match strict_rel els up i with [] => true | _ => false end) (idxs els).

  (* join (up = true) / meet (up = false) of the listed indexes (all elements when the list is
     empty): the unique minimal common upper bound, None when there is none or several *)
  Definition bounds (els : list E) (up : bool) (l : list nat) : list nat :=
    filter (fun j => forallb (fun i => ldir els up i j) l) (idxs els).
  Definition minimal_of (els : list E) (up : bool) (c : list nat) : list nat :=
    filter (fun j => negb (existsb (fun k => ldir els up k j && negb (Nat.eqb k j)) c)) c.
  Definition bound_spec (els : list E) (up : bool) (l : list nat) : option nat :=
    let l' := match l with [] => idxs els | _ => l end in
    match minimal_of els up (bounds els up l') with
    | [z] => Some z
    | _ => None
    end.

  Definition memE (e : E) (l : list E) : bool := existsb (eqb e) l.
  Fixpoint index_from (k : nat) (e : E) (l : list E) : option nat :=
    match l with
    | [] => None
    | x :: l' => if eqb e x then Some k else index_from (S k) e l'
    end.
  Definition index_of (e : E) (l : list E) : option nat := index_from 0 e l.

  Fixpoint remove_nth {A} (k : nat) (l : list A) : list A :=
    match l, k with
    | [], _ => []
    | _ :: l', 0 => l'
    | x :: l', S k' => x :: remove_nth k' l'
    end.

  (* equality of two posets over the same comparison: the same set of elements (the strict
     down-sets, which the code also compares, are then necessarily the same) *)
  Definition spec_eq (els1 els2 : list E) : bool :=
    forallb (fun e => memE e els2) els1 && forallb (fun e => memE e els1) els2.

  (* ---- operations and outputs (shared with the model of the code) ---- *)
  Inductive op :=
  | QLeq (a b : nat)
  | QClosed (up : bool) (i : nat)       (* ancestors (true) / descendants (false) *)
  | QCover (up : bool) (i : nat)        (* parents (true) / children (false) *)
  | QExtremes (up : bool)               (* tops / bottoms *)
  | QBound (up : bool) (l : list nat)   (* join / meet *)
  | QIndex (e : E)
  | QContains (e : E)
  | QLen
  | QEq (other : list E) (other_cache : bool)   (* self == POSet(other, use_cache=other_cache) *)
  | OFill (k : nat)                     (* fill_up_ 0 leq 1 descendants 2 ancestors 3 children 4 parents 5 caches *)
  | OAdd (e : E) (fill : bool)
  | ODel (i : nat)
  | ORemove (e : E).

  Inductive out :=
  | ONone
  | OBool (b : bool)
  | OSet (l : list nat)                 (* a set of indexes, listed in ascending order *)
  | OList (l : list nat)                (* an ordered list of indexes *)
  | OOpt (o : option nat)
  | ONat (n : nat)
  | OEls (l : list E)                   (* the element list after a successful mutation *)
  | OErr (kind : nat).                  (* exception, numbered as harness.core.ERR_KINDS *)

  Definition EKey := 1. Definition EValue := 2. Definition EAssert := 6.
  Definition EIndex := 8. Definition EFuel := 13.

  Definition is_query (o : op) : bool :=
    match o with OAdd _ _ | ODel _ | ORemove _ | OFill _ => false | _ => true end.

  (* the answer of a fresh cache-free poset over [els] *)
  Definition spec_query (els : list E) (use_cache : bool) (q : op) : out :=
    match q with
    | QLeq a b => OBool (lq els a b)
    | QClosed up i => OSet (strict_rel els up i)
    | QCover up i => OSet (covers els up i)
    | QExtremes up => OList (extremes els up)
    | QBound up l => match els with [] => OErr EIndex | _ => OOpt (bound_spec els up l) end
    | QIndex e => match index_of e els with Some i => ONat i | None => OErr EKey end
    | QContains e => OBool (memE e els)
    | QLen => ONat (length els)
    | QEq other _ => OBool (spec_eq els other)
    | OFill _ => if use_cache then ONone else OErr EAssert
    | _ => ONone
    end.

  (* the element list after an operation, and what the operation reports *)
  Definition spec_step (els : list E) (use_cache : bool) (o : op) : list E * out :=
    match o with
    | OAdd e _ => let els' := if memE e els then els else els ++ [e] in (els', OEls els')
    | ODel i => let els' := remove_nth i els in (els', OEls els')
    | ORemove e => match index_of e els with
                   | Some i => let els' := remove_nth i els in (els', OEls els')
                   | None => (els, OErr EKey)
                   end
    | q => (els, spec_query els use_cache q)
    end.

  Fixpoint spec_run (els : list E) (use_cache : bool) (ops : list op) : list E * list out :=
    match ops with
    | [] => (els, [])
    | o :: ops' => let '(els1, r) := spec_step els use_cache o in
                   let '(els2, rs) := spec_run els1 use_cache ops' in (els2, r :: rs)
    end.

  (* a partial-order comparison on the carrier *)
  Record partial_order : Prop := {
    po_refl : forall x, leq x x = true;
    po_antisym : forall x y, leq x y = true -> leq y x = true -> x = y;
    po_trans : forall x y z, leq x y = true -> leq y z = true -> leq x z = true;
    po_eqb : forall x y, eqb x y = true <-> x = y
  }.
End PosetSpec.

Arguments QLeq {E}. Arguments QClosed {E}. Arguments QCover {E}. Arguments QExtremes {E}.
Arguments QBound {E}. Arguments QIndex {E}. Arguments QContains {E}. Arguments QLen {E}.
Arguments QEq {E}. Arguments OFill {E}. Arguments OAdd {E}. Arguments ODel {E}. Arguments ORemove {E}.
Arguments ONone {E}. Arguments OBool {E}. Arguments OSet {E}. Arguments OList {E}.
Arguments OOpt {E}. Arguments ONat {E}. Arguments OEls {E}. Arguments OErr {E}.

(* Spec/C20_TreeSpec.v — what a regression tree predicts, and when a tree counts as fitted on
   a table.  Independent of the decision-lattice model (no premises, extents or records). *)
From Coq Require Import ZArith QArith.
From FCA Require Export Model.C20_DecisionLattice.
Local Open Scope nat_scope.

(* sklearn: a row goes left iff x[feature] <= threshold; the prediction is the leaf's value *)
Fixpoint tree_predict (t : rtree) (row : list Q) : Q :=
  match t with
  | RLeaf v => v
  | RNode _ f thr l r =>
      if Qle_bool (nth f row 0%Q) thr then tree_predict l row else tree_predict r row
  end.

(* the numbers stored at the nodes on the row's root-to-leaf path, root first *)
Fixpoint path_values (t : rtree) (row : list Q) : list Q :=
  match t with
  | RLeaf v => [v]
  | RNode v f thr l r =>
      v :: (if Qle_bool (nth f row 0%Q) thr then path_values l row else path_values r row)
  end.

Definition qsum (l : list Q) : Q := fold_right Qplus 0%Q l.

(* rows of [ext] routed by the tree: every node receives at least one row, and no row that
   reaches a split has its value strictly between thr and thr + eps *)
Definition goes_left (X : table) (f : nat) (thr : Q) (g : nat) : bool := Qle_bool (cell X g f) thr.
Definition in_gap (X : table) (f : nat) (thr : Q) (g : nat) : bool :=
  negb (Qle_bool (cell X g f) thr) && negb (Qle_bool (thr + eps)%Q (cell X g f)).

Fixpoint fitted_on (X : table) (t : rtree) (ext : list nat) : bool :=
  negb (Nat.eqb (length ext) 0) &&
  match t with
  | RLeaf _ => true
  | RNode _ f thr l r =>
      negb (existsb (in_gap X f thr) ext) &&
      fitted_on X l (filter (goes_left X f thr) ext) &&
      fitted_on X r (filter (fun g => negb (goes_left X f thr g)) ext)
  end.
Definition fitted (X : table) (t : rtree) : bool := fitted_on X t (all_rows X).

Definition row_of (X : table) (g : nat) : list Q := nth g X [].

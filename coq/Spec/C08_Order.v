(* Spec/C08_Order.v — what the comparison operators of concepts are supposed to mean:
   inclusion of extents as sets (reversed for monotone concepts), its strict part, set equality;
   canonical extents = strictly increasing index lists.  Independent of the model of the code. *)
From FCA Require Export Spec.Closure.
From Coq Require Export Sorting.Sorted.

Definition spec_le (mono : bool) (A B : list nat) : bool :=
  if mono then subsetb B A else subsetb A B.
Definition spec_eq (A B : list nat) : bool := same_setb A B.
Definition spec_lt (mono : bool) (A B : list nat) : bool := spec_le mono A B && negb (spec_eq A B).

(* strictly increasing index lists: the form in which the library stores every extent it derives *)
Definition increasing (l : list nat) : Prop := StronglySorted lt l.

Fixpoint increasingb (l : list nat) : bool :=
  match l with
  | [] => true
  | x :: l' => forallb (fun y => Nat.ltb x y) l' && increasingb l'
  end.

Lemma increasingb_spec l : increasingb l = true <-> increasing l.
Proof.
  unfold increasing. induction l as [|x l IH]; simpl.
  - split; [constructor | reflexivity].
  - rewrite andb_true_iff, IH, forallb_forall. split.
    + intros [H1 H2]. constructor; [exact H2|]. apply Forall_forall. intros y Hy.
      apply Nat.ltb_lt. apply H1. exact Hy.
    + intros H. inversion H as [|? ? H2 H1]; subst. split; [|exact H2].
      intros y Hy. apply Nat.ltb_lt. rewrite Forall_forall in H1. apply H1. exact Hy.
Qed.

Lemma increasing_NoDup l : increasing l -> NoDup l.
Proof.
  unfold increasing. induction 1 as [|x l Hs IH Hf]; constructor; [|exact IH].
  intros Hin. rewrite Forall_forall in Hf. specialize (Hf x Hin). lia.
Qed.

Lemma increasing_filter p l : increasing l -> increasing (filter p l).
Proof.
  unfold increasing. induction 1 as [|x l Hs IH Hf]; simpl; [constructor|].
  destruct (p x); [|exact IH]. constructor; [exact IH|].
  rewrite Forall_forall in *. intros y Hy. apply filter_In in Hy. apply Hf. tauto.
Qed.

Lemma increasing_seq k n : increasing (seq k n).
Proof.
  unfold increasing. revert k. induction n as [|n IH]; intros k; simpl; constructor; [apply IH|].
  apply Forall_forall. intros y Hy. apply in_seq in Hy. lia.
Qed.

(* two increasing lists with the same members are the same list *)
Lemma increasing_same_set_eq a b : increasing a -> increasing b -> same_set a b -> a = b.
Proof.
  unfold increasing. intros Ha. revert b. induction Ha as [|x a Hs IH Hf]; intros b Hb E.
  - destruct b as [|y b]; [reflexivity|]. exfalso. apply (E y). left. reflexivity.
  - destruct b as [|y b]; [exfalso; apply (E x); left; reflexivity|].
    inversion Hb as [|? ? Hsb Hfb]; subst. rewrite Forall_forall in Hf, Hfb.
    assert (x = y).
    { destruct (proj1 (E x) (or_introl eq_refl)) as [Hxy|Hxb]; [symmetry; exact Hxy|].
      destruct (proj2 (E y) (or_introl eq_refl)) as [Hyx|Hya]; [exact Hyx|].
      specialize (Hf y Hya). specialize (Hfb x Hxb). lia. }
    subst y. f_equal. apply IH; [exact Hsb|].
    intros z. split; intros Hz.
    + destruct (proj1 (E z) (or_intror Hz)) as [Hzx|Hzb]; [|exact Hzb].
      subst z. specialize (Hf x Hz). lia.
    + destruct (proj2 (E z) (or_intror Hz)) as [Hzx|Hza]; [|exact Hza].
      subst z. specialize (Hfb x Hz). lia.
Qed.

(* every extent the prime operators produce is canonical *)
Lemma ext_increasing t B : increasing (ext t B).
Proof. unfold ext, ext_spec, all_objs. apply increasing_filter, increasing_seq. Qed.
Lemma ext_mono_increasing t B : increasing (ext_mono_spec t B (all_objs t)).
Proof. unfold ext_mono_spec, all_objs. apply increasing_filter, increasing_seq. Qed.

Lemma spec_le_refl mono A : spec_le mono A A = true.
Proof. unfold spec_le. destruct mono; apply subsetb_incl, incl_refl. Qed.

Lemma spec_le_trans mono A B C :
  spec_le mono A B = true -> spec_le mono B C = true -> spec_le mono A C = true.
Proof.
  unfold spec_le. destruct mono; rewrite !subsetb_incl; intros H1 H2.
  - eapply incl_tran; eassumption.
  - eapply incl_tran; eassumption.
Qed.

Lemma spec_le_antisym mono A B :
  spec_le mono A B = true -> spec_le mono B A = true -> spec_eq A B = true.
Proof.
  unfold spec_le, spec_eq, same_setb. destruct mono; intros H1 H2; rewrite H1, H2; reflexivity.
Qed.

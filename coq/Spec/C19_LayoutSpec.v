(* Spec/C19_LayoutSpec.v — what property C19 says, independent of the model of the code.
   (1) level = length of the longest chain from a maximal element down to the element;
   (2) a drawing is a list of points, one per element: total, pairwise distinct, strictly
       lower for strictly smaller elements;
   (3) what the mover operations must do to a picture, stated on pictures (lists of points)
       only: no levels / peers_order / pos_peers arrays here. *)
From Coq Require Import ZArith QArith.
From FCA Require Export Base.ListSet.
Local Open Scope nat_scope.

(* ------------------------------------------------------------------ order and chains *)
Section Order.
Variable n : nat.
Variable leq : nat -> nat -> bool.

Definition slt (i j : nat) : bool := leq i j && negb (Nat.eqb i j).

(* [asc i l]: i < l1 < l2 < ... , all inside 0..n-1: a chain climbing from i *)
Fixpoint asc (i : nat) (l : list nat) : Prop :=
  match l with
  | [] => True
  | j :: t => slt i j = true /\ j < n /\ asc j t
  end.
Definition maximal (i : nat) : Prop := forall j, j < n -> slt i j = false.

(* k is the length (number of steps) of the longest chain from a maximal element down to i *)
Definition is_height (i k : nat) : Prop :=
  (exists l, asc i l /\ length l = k /\ maximal (last l i)) /\
  (forall l, asc i l -> length l <= k).

(* executable: longest climbing chain, by exhaustive search *)
Fixpoint height_fuel (fuel i : nat) : nat :=
  match fuel with
  | O => O
  | S f => fold_left Nat.max (map (fun j => S (height_fuel f j)) (filter (slt i) (seq 0 n))) O
  end.
Definition height (i : nat) : nat := height_fuel n i.
End Order.

(* ------------------------------------------------------------------ drawings *)
Definition pt := (Q * Q)%type.
Definition peq (a b : pt) : bool := Qeq_bool (fst a) (fst b) && Qeq_bool (snd a) (snd b).
Definition pt_at (ps : list pt) (i : nat) : pt := nth i ps (0%Q, 0%Q).
Definition qlt_b (a b : Q) : bool := negb (Qle_bool b a).

Definition all_pairs (n : nat) (p : nat -> nat -> bool) : bool :=
  forallb (fun i => forallb (fun j => p i j) (seq 0 n)) (seq 0 n).

Definition distinct_points (n : nat) (ps : list pt) : bool :=
  all_pairs n (fun i j => Nat.eqb i j || negb (peq (pt_at ps i) (pt_at ps j))).
Definition respects_order (n : nat) (leq : nat -> nat -> bool) (ps : list pt) : bool :=
  all_pairs n (fun i j => negb (slt leq j i) || qlt_b (snd (pt_at ps j)) (snd (pt_at ps i))).
Definition layout_ok (n : nat) (leq : nat -> nat -> bool) (ps : list pt) : bool :=
  Nat.eqb (length ps) n && distinct_points n ps && respects_order n leq ps.

(* the contract of the networkx-based layout: one horizontal line per level, lower levels lower *)
Definition levels_as_rows (n : nat) (lvl : nat -> nat) (ps : list pt) : bool :=
  all_pairs n (fun i j =>
    (negb (Nat.eqb (lvl i) (lvl j)) || Qeq_bool (snd (pt_at ps i)) (snd (pt_at ps j))) &&
    (negb (Nat.ltb (lvl i) (lvl j)) || qlt_b (snd (pt_at ps j)) (snd (pt_at ps i)))).

(* ------------------------------------------------------------------ moving nodes in a picture
   [v] = vertical orientation: the level axis is y and the peer axis is x; horizontal: the
   level axis is x and the peer axis is y. *)
Definition pc (v : bool) (p : pt) : Q := if v then fst p else snd p.   (* peer coordinate *)
Definition lc (v : bool) (p : pt) : Q := if v then snd p else fst p.   (* level coordinate *)
Definition mk_pt (v : bool) (peer level : Q) : pt := if v then (peer, level) else (level, peer).
Definition same_level (v : bool) (ps : list pt) (a b : nat) : bool :=
  Qeq_bool (lc v (pt_at ps a)) (lc v (pt_at ps b)).

Definition pts_eq (a b : list pt) : bool := list_eqb peq a b.

(* every node keeps its level coordinate *)
Definition levels_kept (v : bool) (ps ps' : list pt) : bool :=
  Nat.eqb (length ps) (length ps') &&
  forallb (fun i => Qeq_bool (lc v (pt_at ps i)) (lc v (pt_at ps' i))) (seq 0 (length ps)).
(* nodes that are not on the level of node [a] do not move at all *)
Definition other_levels_kept (v : bool) (ps ps' : list pt) (a : nat) : bool :=
  forallb (fun i => same_level v ps a i || peq (pt_at ps i) (pt_at ps' i)) (seq 0 (length ps)).

(* swap: exactly the two positions are exchanged *)
Definition swap_spec (ps : list pt) (a b : nat) : list pt :=
  map (fun i => if Nat.eqb i a then pt_at ps b else if Nat.eqb i b then pt_at ps a else pt_at ps i)
      (seq 0 (length ps)).

(* shift: the peers of [i] in the order of their peer coordinate; [i] is taken out and put back
   min(|k|, room) places further; the j-th node of the new order gets the j-th coordinate *)
Fixpoint insert_at {A} (k : nat) (x : A) (l : list A) : list A :=
  match k, l with
  | O, _ => x :: l
  | S k', [] => [x]
  | S k', y :: t => y :: insert_at k' x t
  end.
Fixpoint index_of (x : nat) (l : list nat) : nat :=
  match l with [] => O | y :: t => if Nat.eqb x y then O else S (index_of x t) end.

Definition peers_of (v : bool) (ps : list pt) (i : nat) : list nat :=
  filter (same_level v ps i) (seq 0 (length ps)).
Definition rank_in (v : bool) (ps : list pt) (i : nat) (peers : list nat) : nat :=
  length (filter (fun j => qlt_b (pc v (pt_at ps j)) (pc v (pt_at ps i))) peers).
(* peers in ascending order of their peer coordinate (selection by rank; coordinates of peers
   are pairwise different in a picture with distinct points) *)
Definition peers_in_order (v : bool) (ps : list pt) (peers : list nat) : list nat :=
  map (fun r => nth O (filter (fun j => Nat.eqb (rank_in v ps j peers) r) peers) O)
      (seq 0 (length peers)).

Definition shift_spec (v : bool) (ps : list pt) (i : nat) (k : Z) : list pt :=
  let peers := peers_of v ps i in
  let ordered := peers_in_order v ps peers in
  let coords := map (fun j => pc v (pt_at ps j)) ordered in
  let r := rank_in v ps i peers in
  let m := length peers in
  let r' := if Z.leb 0 k then Nat.min (r + Z.abs_nat k) (m - 1) else r - Z.abs_nat k in
  let ordered' := insert_at r' i (filter (fun j => negb (Nat.eqb j i)) ordered) in
  map (fun el => if same_level v ps i el
                 then mk_pt v (nth (index_of el ordered') coords 0%Q) (lc v (pt_at ps el))
                 else pt_at ps el)
      (seq 0 (length ps)).

(* turning the picture: 'v' -> 'h' is (x, y) |-> (-y, x), 'h' -> 'v' is (x, y) |-> (y, -x) *)
Definition turn_spec (v v' : bool) (ps : list pt) : list pt :=
  if Bool.eqb v v' then ps
  else if v then map (fun p => (- snd p, fst p)) ps else map (fun p => (snd p, - fst p)) ps.

(* Spec/C08_Pattern.v — the interval pattern structure as mathematics: the description of a set
   of objects is, per column, the smallest interval containing their cells (its end points are
   attained); an object falls under a description when each of its cells lies in the interval.
   [mvctx] / [mv_cell] are the data types of Model/C08_Concept.v; nothing else of the model is used. *)
From FCA Require Export Model.C08_Concept.

Definition cell_lo (K : mvctx) (j g : nat) : Z := fst (mv_cell K g j).
Definition cell_hi (K : mvctx) (j g : nat) : Z := snd (mv_cell K g j).

(* d is the interval hull of column j over the objects A *)
Definition is_hull (K : mvctx) (j : nat) (A : list nat) (d : desc) : Prop :=
  match A, d with
  | [], None => True
  | _ :: _, Some (lo, hi) =>
      (forall g, In g A -> (lo <= cell_lo K j g)%Z /\ (cell_hi K j g <= hi)%Z)
      /\ (exists g, In g A /\ lo = cell_lo K j g) /\ (exists g, In g A /\ hi = cell_hi K j g)
  | _, _ => False
  end.

Definition in_desc (K : mvctx) (j : nat) (d : desc) (g : nat) : bool :=
  match d with
  | None => false
  | Some (lo, hi) => Z.leb lo (cell_lo K j g) && Z.leb (cell_hi K j g) hi
  end.

(* g falls under the descriptions ds of columns j, j+1, ... *)
Fixpoint covered_from (K : mvctx) (j : nat) (ds : list desc) (g : nat) : bool :=
  match ds with
  | [] => true
  | d :: ds' => in_desc K j d g && covered_from K (S j) ds' g
  end.

Definition ext_mv (K : mvctx) (ds : list desc) : list nat :=
  filter (covered_from K 0 ds) (seq 0 (mv_height K)).

(* Spec/LatticeOrderSpec.v — what C03 / C04 say, as plain filters over the list of extents
   (intents) of a lattice in its listing order.  Independent of the model of the code: the
   order is PROPER INCLUSION OF EXTENTS, a cover is a proper inclusion with nothing properly
   in between, meet / join are characterised by intersections, the reduced labels by object /
   attribute concepts, and the table is rebuilt from labels + order. *)
From FCA Require Export Spec.Closure.

Definition psubset (a b : list nat) : bool := subsetb a b && negb (subsetb b a).

Section OnExtents.
  Variable exts : list (list nat).
  Definition set_at (i : nat) : list nat := nth i exts [].
  Definition n_sets : nat := length exts.

  Definition spec_leq (i j : nat) : bool := subsetb (set_at i) (set_at j).
  Definition spec_descendants (i : nat) : list nat :=
    filter (fun j => psubset (set_at j) (set_at i)) (seq 0 n_sets).
  Definition spec_ancestors (i : nat) : list nat :=
    filter (fun j => psubset (set_at i) (set_at j)) (seq 0 n_sets).
  Definition spec_children (i : nat) : list nat :=
    filter (fun j => psubset (set_at j) (set_at i) &&
                     negb (existsb (fun k => psubset (set_at j) (set_at k) && psubset (set_at k) (set_at i)) (seq 0 n_sets)))
           (seq 0 n_sets).
  Definition spec_parents (i : nat) : list nat :=
    filter (fun j => psubset (set_at i) (set_at j) &&
                     negb (existsb (fun k => psubset (set_at i) (set_at k) && psubset (set_at k) (set_at j)) (seq 0 n_sets)))
           (seq 0 n_sets).

  Fixpoint sizes_sortedb (l : list (list nat)) : bool :=
    match l with
    | a :: ((b :: _) as l') => Nat.leb (length b) (length a) && sizes_sortedb l'
    | _ => true
    end.

  (* a chain decomposition: every chain starts at [top], steps parent -> child, all covered *)
  Fixpoint steps_ok (chain : list nat) : bool :=
    match chain with
    | a :: ((b :: _) as rest) => mem b (spec_children a) && steps_ok rest
    | _ => true
    end.
  Definition chains_okb (top : nat) (chains : list (list nat)) : bool :=
    forallb (fun ch => match ch with [] => false | a :: _ => Nat.eqb a top && steps_ok ch end) chains
    && forallb (fun i => existsb (mem i) chains) (seq 0 n_sets).
End OnExtents.

(* members of [base] that lie in every set of [sets] *)
Definition inter_all (base : list nat) (sets : list (list nat)) : list nat :=
  filter (fun x => forallb (mem x) sets) base.

(* the element k is the meet of S: its extent is the intersection of the extents of S *)
Definition spec_meet_ok (t : table) (exts : list (list nat)) (S : list nat) (k : nat) : bool :=
  Nat.ltb k (length exts) &&
  nat_list_eqb (set_at exts k) (inter_all (all_objs t) (map (set_at exts) S)).
(* the element k is the join of S: its intent is the intersection of the intents of S *)
Definition spec_join_ok (t : table) (ints : list (list nat)) (S : list nat) (k : nat) : bool :=
  Nat.ltb k (length ints) &&
  nat_list_eqb (set_at ints k) (inter_all (all_attrs t) (map (set_at ints) S)).

(* meet / join in a list of concepts that need not be complete (concepts were removed): the
   answer is the greatest lower bound (least upper bound) among the listed concepts, or nothing
   when there is none *)
Definition lower_boundb (exts : list (list nat)) (S : list nat) (j : nat) : bool :=
  forallb (fun s => subsetb (set_at exts j) (set_at exts s)) S.
Definition upper_boundb (exts : list (list nat)) (S : list nat) (j : nat) : bool :=
  forallb (fun s => subsetb (set_at exts s) (set_at exts j)) S.
Definition is_glb (exts : list (list nat)) (S : list nat) (k : nat) : bool :=
  lower_boundb exts S k &&
  forallb (fun j => if lower_boundb exts S j then subsetb (set_at exts j) (set_at exts k) else true)
          (seq 0 (length exts)).
Definition is_lub (exts : list (list nat)) (S : list nat) (k : nat) : bool :=
  upper_boundb exts S k &&
  forallb (fun j => if upper_boundb exts S j then subsetb (set_at exts k) (set_at exts j) else true)
          (seq 0 (length exts)).
Definition spec_bound_ok (test : nat -> bool) (n : nat) (r : option nat) : bool :=
  match r with
  | Some k => Nat.ltb k n && test k
  | None => negb (existsb test (seq 0 n))
  end.

(* ------------------------------------------------------------------ C04 *)
(* the reduced label of concept i: the objects whose object concept it is *)
Definition spec_new_extent (t : table) (exts : list (list nat)) (i : nat) : list nat :=
  filter (fun g => nat_list_eqb (cl_obj t [g]) (set_at exts i)) (all_objs t).
Definition spec_new_intent (t : table) (ints : list (list nat)) (i : nat) : list nat :=
  filter (fun m => nat_list_eqb (cl_attr t [m]) (set_at ints i)) (all_attrs t).

(* the node carrying label x *)
Fixpoint home_from (k : nat) (labels : list (list nat)) (x : nat) : option nat :=
  match labels with
  | [] => None
  | l :: ls => if mem x l then Some k else home_from (S k) ls x
  end.
Definition home (labels : list (list nat)) (x : nat) : option nat := home_from 0 labels x.
Definition count_homes (labels : list (list nat)) (x : nat) : nat :=
  length (filter (mem x) labels).

(* reading the table off the diagram: g has m iff g's node is m's node or lies below it *)
Definition rebuild (h w : nat) (obj_labels attr_labels ancestors : list (list nat)) : table :=
  map (fun g => map (fun m =>
                       match home obj_labels g, home attr_labels m with
                       | Some a, Some b => Nat.eqb a b || mem b (nth a ancestors [])
                       | _, _ => false
                       end) (seq 0 w)) (seq 0 h).

(* the same reading through any "below or equal" oracle on node indexes *)
Definition rebuild_rel (h w : nat) (obj_labels attr_labels : list (list nat)) (rel : nat -> nat -> bool)
  : table :=
  map (fun g => map (fun m =>
                       match home obj_labels g, home attr_labels m with
                       | Some a, Some b => rel a b
                       | _, _ => false
                       end) (seq 0 w)) (seq 0 h).

Definition table_eqb (a b : table) : bool := list_eqb bool_list_eqb a b.

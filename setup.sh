#!/bin/sh
# Build the Coq development from files on disk (offline). Full .vo build, no -vos.
set -e
DIR="$(cd "$(dirname "$0")" && pwd)"
cd "$DIR"
PYTHONPATH="$DIR" /venv/bin/python - <<'PY'
from harness import core
import sys
ok, log = core.build()
print(log[-3000:])
sys.exit(0 if ok else 1)
PY

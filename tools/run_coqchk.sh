#!/bin/sh
# coqchk -o over every Props/Cxx.vo (independent re-check of the compiled development); writes notes/coqchk.txt
cd /verif/coq
: > /verif/notes/coqchk.txt
ls Props/C*.v | sed 's|Props/\(C[0-9]*\)\.v|\1|' | xargs -P 3 -I{} sh -c 'o=$(timeout 3000 coqchk -silent -o -Q . FCA FCA.Props.{} 2>&1 | tail -14 | tr "\n" " "); echo "{}: $o" >> /verif/notes/coqchk.txt'
sort -o /verif/notes/coqchk.txt /verif/notes/coqchk.txt

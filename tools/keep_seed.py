#!/usr/bin/env python3
"""keep_seed.py <src dir> <seed id> <property> <caught_by comma list or -> <ran...>
Copy a confirmed seeded change into /verif/seeded/<seed id>/ with meta.json."""
import json, os, shutil, sys
src, sid, prop, caught = sys.argv[1:5]
ran = ' '.join(sys.argv[5:])
dst = os.path.join('/verif/seeded', sid)
os.makedirs(dst, exist_ok=True)
for f in ('patch.diff', 'demo.py', 'note.txt'):
    if os.path.exists(os.path.join(src, f)):
        shutil.copy(os.path.join(src, f), dst)
note = open(os.path.join(src, 'note.txt')).read() if os.path.exists(os.path.join(src, 'note.txt')) else ''
conf = {}
for f in ('demo_clean.out', 'demo_mut.out', 'pytest_mut.out'):
    p = os.path.join(src, f)
    if os.path.exists(p):
        conf[f] = open(p).read()[-400:]
meta = {
    'id': sid, 'breaks_property': prop,
    'origin': 'independent sub-agent given only the property text and a scratch worktree',
    'needs_to_manifest': note[:1500],
    'confirmed': {'how': 'tools/confirm_seed.sh in a scratch worktree of /repo: demo passes clean, fails with the patch, test suite unchanged (182 passed, 3 environment failures)', **conf},
    'caught_by': [] if caught == '-' else caught.split(','),
    'what_i_ran': ran,
}
json.dump(meta, open(os.path.join(dst, 'meta.json'), 'w'), indent=1)
print('kept', dst)

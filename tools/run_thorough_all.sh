#!/bin/sh
# thorough tier of every property on the clean tree, 4 at a time; one line per property
cd /verif
PROPS="${*:-C01 C02 C03 C04 C05 C06 C07 C08 C09 C10 C11 C12 C13 C14 C15 C16 C17 C18 C19 C20}"
for p in $PROPS; do echo $p; done | xargs -P 4 -I{} sh -c 's=$(date +%s); out=$(./check {} --tier thorough 2>&1); rc=$?; n=$(echo "$out" | grep -c "^VIOLATION"); e=$(date +%s); echo "{} exit=$rc violations=$n wall=$((e-s))s :: $(echo "$out" | grep -v "^KNOWN-FINDING" | tail -1)"'

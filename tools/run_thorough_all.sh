#!/bin/sh
cd /verif
for p in C01 C02 C03 C04 C05 C06 C07 C08 C09 C10 C11 C12 C13 C14 C15 C16 C17 C18 C19 C20; do
  s=$(date +%s)
  out=$(./check $p --tier thorough 2>&1 | grep -v '^KNOWN-FINDING' | tail -2 | tr '\n' ' ')
  e=$(date +%s)
  echo "$p wall=$((e-s))s :: $out"
done

#!/bin/sh
# quick tier on the clean tree for several seeds: any VIOLATION here is a false alarm (or a genuine defect)
cd /verif
for s in "$@"; do
 for p in C01 C02 C03 C04 C05 C06 C07 C08 C09 C10 C11 C12 C13 C14 C15 C16 C17 C18 C19 C20; do
  out=$(VERIF_SEED=$s ./check $p --tier quick 2>&1)
  n=$(echo "$out" | grep -c '^VIOLATION')
  echo "seed=$s $p violations=$n :: $(echo "$out" | grep -v KNOWN-FINDING | tail -1)"
 done
done

#!/venv/bin/python
"""Record the normalised-AST fingerprint of every fcapy/**/*.py of /repo's HEAD in
harness/source_baseline.json (run by hand after a fix: commit; never by a check)."""
import json, os, sys
sys.path.insert(0, os.path.dirname(os.path.dirname(os.path.abspath(__file__))))
from harness.core import source_fingerprints
fp = source_fingerprints('/repo')
json.dump(fp, open(os.path.join(os.path.dirname(os.path.dirname(os.path.abspath(__file__))), 'harness', 'source_baseline.json'), 'w'), indent=1, sort_keys=True)
print(len(fp), 'files fingerprinted')

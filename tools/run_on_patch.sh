#!/bin/sh
# run_on_patch.sh <patch.diff> <Cxx> [tier] : run ./check Cxx against a scratch worktree of /repo with
# the patch applied (FCAPY_REPO), so that concurrent work on /repo is not disturbed.
P="$(readlink -f "$1")"; ID="$2"; TIER="${3:-quick}"; WT="/tmp/runpatch_$$"
git -C /repo worktree add -q --detach "$WT" HEAD || exit 2
git -C "$WT" apply "$P" || { echo "patch does not apply"; git -C /repo worktree remove --force "$WT"; exit 2; }
cd /verif && FCAPY_REPO="$WT" ./check "$ID" --tier "$TIER"; rc=$?
git -C /repo worktree remove --force "$WT"
echo "exit=$rc"
exit $rc

#!/bin/sh
# confirm_round.sh <offset|auto>: (auto = number after the highest kept seed of that property)
# confirm /tmp/seed/out_Cxx/{1,2,3} and stash them as seeded_pending/Cxx-(k+offset)
OFF=$1
cd /verif
for p in C01 C02 C03 C04 C05 C06 C07 C08 C09 C10 C11 C12 C13 C14 C15 C16 C17 C18 C19 C20; do
 for k in 1 2 3; do
  d=/tmp/seed/out_$p/$k
  [ -f $d/patch.diff ] || continue
  [ -f $d/demo_mut.out ] && continue
  echo "$p $k"
 done
done | xargs -P 6 -L 1 sh -c 'tools/confirm_seed.sh /tmp/seed/out_$0/$1'
for p in C01 C02 C03 C04 C05 C06 C07 C08 C09 C10 C11 C12 C13 C14 C15 C16 C17 C18 C19 C20; do
 for k in 1 2 3; do
  d=/tmp/seed/out_$p/$k
  if [ "$OFF" = auto ]; then M=$(ls -d seeded/$p-* 2>/dev/null | sed 's/.*-//' | sort -n | tail -1); n=$((k+${M:-0})); else n=$((k+OFF)); fi
  [ -f $d/demo_mut.out ] || continue
  [ -d seeded/$p-$n ] && continue
  mkdir -p seeded_pending/$p-$n
  cp $d/patch.diff $d/demo.py $d/note.txt $d/demo_clean.out $d/demo_mut.out $d/pytest_mut.out seeded_pending/$p-$n/ 2>/dev/null
 done
done
ls seeded_pending | wc -l

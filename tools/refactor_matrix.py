#!/usr/bin/env python3
"""refactor_matrix.py <dir with */patch.diff> : run, for every behaviour-preserving refactoring, the quick
checks of the properties anchored in the touched files against a scratch worktree with the patch.
A VIOLATION here is a false alarm (or the refactoring is not behaviour-preserving: look at the replay)."""
import glob, os, re, subprocess, sys, json
MAP = {
 'fcapy/context/bintable.py': ['C01', 'C05', 'C06'],
 'fcapy/context/formal_context.py': ['C01', 'C05', 'C06', 'C18', 'C02'],
 'fcapy/poset/poset.py': ['C09', 'C10', 'C11', 'C03'],
 'fcapy/poset/lattice.py': ['C11', 'C03'],
 'fcapy/lattice/concept_lattice.py': ['C02', 'C03', 'C04', 'C06', 'C07', 'C11', 'C16', 'C17'],
 'fcapy/algorithms/concept_construction.py': ['C02', 'C14', 'C15'],
 'fcapy/algorithms/lattice_construction.py': ['C12'],
 'fcapy/mvcontext/pattern_structure.py': ['C13', 'C14', 'C07'],
 'fcapy/mvcontext/mvcontext.py': ['C14', 'C18', 'C07'],
 'fcapy/lattice/formal_concept.py': ['C08', 'C07', 'C03'],
 'fcapy/lattice/pattern_concept.py': ['C08', 'C07', 'C14'],
 'fcapy/lattice/concept_measures.py': ['C16'],
 'fcapy/context/converters.py': ['C07'],
 'fcapy/visualizer/mover.py': ['C19'],
 'fcapy/visualizer/line_layouts.py': ['C19'],
 'fcapy/ml/decision_lattice.py': ['C20'],
}
os.chdir('/verif')
rows = []
for patch in sorted(glob.glob(os.path.join(sys.argv[1], '*', '*', 'patch.diff'))):
    files = re.findall(r'^\+\+\+ b/(\S+)', open(patch).read(), flags=re.M)
    props = sorted({p for f in files for p in MAP.get(f, [])})
    def one(chk):
        r = subprocess.run(['tools/run_on_patch.sh', patch, chk, 'quick'], capture_output=True, text=True,
                           env=dict(os.environ, VERIF_SEED='2'))
        viol = [l for l in r.stdout.splitlines() if l.startswith('VIOLATION')]
        nf = sum('no-failing-input-found' in v for v in viol)
        summ = [l for l in r.stdout.splitlines() if l.startswith(chk + ' ')]
        rows.append((patch, chk, len(viol), nf, [v[:200] for v in viol]))
        print('%s %s violations=%d (no-failing-input-found: %d) %s' % (patch.replace(sys.argv[1], ''), chk, len(viol), nf,
              summ[-1][-70:] if summ else r.stdout[-120:].replace('\n', ' ')), flush=True)
    from concurrent.futures import ThreadPoolExecutor
    with ThreadPoolExecutor(4) as ex: list(ex.map(one, props))
json.dump(rows, open('/verif/notes/refactor_matrix.json', 'w'), indent=1)

#!/usr/bin/env python3
"""Regenerate MANIFEST.json from tools/props.json (per-property level text) — keeps it valid."""
import json, os, subprocess
D = os.path.dirname(os.path.dirname(os.path.abspath(__file__)))
props = [json.loads(l) for l in open(os.path.join(D, 'properties.jsonl'))]
import glob
table = {}
for f in sorted(glob.glob(os.path.join(D, 'tools', 'props.d', 'C*.json'))):
    table[os.path.basename(f)[:-5]] = json.load(open(f))
fix_commits = subprocess.run(['git', '-C', '/repo', 'log', '--format=%h %s'], capture_output=True, text=True).stdout.splitlines()
hook_commits = [l.split()[0] for l in fix_commits if l.split(' ', 1)[1].startswith('hook:')]
checks, na = [], []
for p in props:
    pid = p['id']
    e = table.get(pid)
    if not e or not e.get('claimed'):
        na.append({'property_id': pid, 'reason': (e or {}).get('reason', 'check not built yet in this development; see DESIGN.md section 6 for the plan')})
        continue
    checks.append({
        'property_id': pid,
        'quick_cmd': './check %s --tier quick' % pid,
        'thorough_cmd': './check %s --tier thorough' % pid,
        'evidence_file': '/verif/evidence/%s.json' % pid,
        'replay_cmd_template': './check %s --replay {path}' % pid,
        'engine': 'coq-model+correspondence',
        'level_claimed': {'category': 'proof', 'text': e['text'], 'design_ref': 'DESIGN.md section 6, ' + pid},
        'level_note': e['note'],
        'technique': e.get('technique', 'Coq 8.16 theorems about a hand-written Gallina model of the code + per-run differential correspondence (implementation vs. model and spec evaluated by vm_compute)'),
    })
m = {
    'version': 1,
    'setup_cmd': 'cd /verif && ./setup.sh',
    'hooks': {
        'guard': 'FCAPY_VERIF',
        'enable': 'the checks export FCAPY_VERIF=1 before importing /repo (no hook is installed at present: everything is observed through the public API)',
        'baseline_off_cmd': 'cd /repo && env -u FCAPY_VERIF /venv/bin/python -m pytest -ra -q -p no:cacheprovider --timeout=900 --continue-on-collection-errors',
        'source_commits': hook_commits,
        'add_only': True,
    },
    'engines': [{
        'name': 'coq-model+correspondence', 'path': '/verif/coq + /verif/harness',
        'serves_properties': [c['property_id'] for c in checks],
        'kind_free_text': 'Coq 8.16.1 development (Base/Spec/Model/Lemmas/Props/Corr) + Python harness that runs /repo and evaluates the model inside coqc with vm_compute',
    }],
    'checks': checks,
    'not_applicable': na,
    'notes': 'See DESIGN.md. Genuine defects repaired by fix: commits in /repo are listed in known_findings.json (fixed:), open findings likewise.',
}
json.dump(m, open(os.path.join(D, 'MANIFEST.json'), 'w'), indent=1)
print('claimed', len(checks), 'not claimed', len(na))

#!/usr/bin/env python3
"""Regenerate the generated parts of DESIGN.md (between the GENERATED markers):
 - section 6A: per-property as-built summary from tools/props.d + evidence + Props files
 - section 12: seeded changes and reverted fixes, which check catches which."""
import glob, json, os, re
D = os.path.dirname(os.path.dirname(os.path.abspath(__file__)))
known = json.load(open(os.path.join(D, 'known_findings.json')))
out = []
out.append('### 6A.1 Status table (from the last committed evidence, quick tier)\n')
out.append('| id | theorems closed | cases | distinct non-trivial | wall (s) | open findings |')
out.append('|---|---|---|---|---|---|')
for f in sorted(glob.glob(os.path.join(D, 'evidence', 'C*.json'))):
    e = json.load(open(f)); c = e['coverage']; pid = e['property_id']
    of = sorted({k['id'] for k in known['findings'] if k['property'] == pid})
    out.append('| %s | %d/%d | %d | %d | %.0f | %s |' % (pid, c['discharged'], c['obligations'], c['evaluations'],
               c['distinct_nontrivial'], e['wall_s'], ', '.join(of) or '—'))
out.append('\n### 6A.2 What is proved and checked, per property (text of `tools/props.d/*.json`, which also feeds MANIFEST.json)\n')
for f in sorted(glob.glob(os.path.join(D, 'tools', 'props.d', 'C*.json'))):
    pid = os.path.basename(f)[:-5]
    p = json.load(open(f))
    src = os.path.join(D, 'coq', 'Props', pid + '.v')
    txt = re.sub(r'\(\*.*?\*\)', '', open(src).read(), flags=re.S) if os.path.exists(src) else ''
    thms = re.findall(r'^\s*(?:Theorem|Lemma|Corollary)\s+(\w+)', txt, flags=re.M)
    stm = re.findall(r'^\s*Definition\s+(\w+_statement)', txt, flags=re.M)
    out.append('**%s.** %s\n' % (pid, p.get('text', '').strip()))
    out.append('*Trusted / modelled-not-verified / outside the quantifier:* %s\n' % p.get('note', '').strip())
    out.append('*Theorems in `coq/Props/%s.v` (%d):* %s%s\n' % (pid, len(thms), ', '.join('`%s`' % t for t in thms),
               ('. *Left as statements (not proved):* ' + ', '.join('`%s`' % s for s in stm)) if stm else ''))
gen6 = '\n'.join(out)

out = []
out.append('### 12.1 Seeded changes\n')
out.append('Each row is a change written by an independent sub-agent that saw only the property text and a scratch '
           'worktree. Every one was confirmed by `tools/confirm_seed.sh` (demo passes on the clean tree, fails with the '
           'patch; the test suite still shows 182 passed / the same 3 environment failures) and then run through '
           '`tools/seed_matrix.py` (= the property\'s quick check against a scratch worktree with the patch applied). '
           'Patch, demonstration and meta.json are in `seeded/<seed>/`.\n')
out.append('| seed | breaks | site and what it needs to manifest | caught by |')
out.append('|---|---|---|---|')
CROSS = json.load(open(os.path.join(D, 'notes', 'cross_catches.json'))) if os.path.exists(os.path.join(D, 'notes', 'cross_catches.json')) else {}


def nat(s):
    m = re.match(r'(.*?)(\d+)-(\d+)$', s)
    return (int(m.group(2)), int(m.group(3))) if m else (0, 0)
for d in sorted(glob.glob(os.path.join(D, 'seeded', 'C*')), key=lambda x: nat(os.path.basename(x))):
    m = json.load(open(os.path.join(d, 'meta.json')))
    extra = CROSS.get(m['id'], [])
    if extra:
        m['caught_by'] = list(m.get('caught_by') or []) + [c for c in extra if c not in (m.get('caught_by') or [])]
    if m.get('outside_quantifier') and not m.get('caught_by'):
        m['caught_by'] = ['(outside the quantifier: see meta.json)']
    note = ' '.join(m.get('needs_to_manifest', '').split())
    note = re.sub(r'^(Change|C\d\d ?/ ?change|Seed)\s*\d*\s*(\(C\d\d\))?\s*[-—:]*\s*', '', note, flags=re.I)
    note = note.replace('|', '/')[:260]
    out.append('| %s | %s | %s… | %s |' % (m['id'], m['breaks_property'], note, ', '.join(m.get('caught_by') or []) or '**missed**'))
rm = os.path.join(D, 'notes', 'revert_matrix.txt')
if os.path.exists(rm):
    out.append('\n### 12.2 Reverted fixes\n')
    out.append('Every `fix:` commit of /repo was reverted on a scratch worktree (`seeded/revert_<hash>/patch.diff`) and the '
               'owning property\'s quick check run against it (`tools/revert_matrix.sh`):\n')
    out.append('| commit | check | VIOLATION lines | defect |')
    out.append('|---|---|---|---|')
    for l in open(rm):
        m = re.match(r'(\w+) (C\d\d) violations=(\d+) (exit=\d+)? ?:: (.*)', l.strip())
        if m:
            out.append('| %s | %s | %s | %s |' % (m.group(1), m.group(2), m.group(3), m.group(5)))
gen12 = '\n'.join(out)

p = os.path.join(D, 'DESIGN.md')
s = open(p).read()
for tag, gen in (('6A', gen6), ('12', gen12)):
    b, e = '<!-- BEGIN GENERATED %s -->' % tag, '<!-- END GENERATED %s -->' % tag
    if b in s and e in s:
        s = s[:s.index(b) + len(b)] + '\n' + gen + '\n' + s[s.index(e):]
    else:
        print('markers for', tag, 'missing')
open(p, 'w').write(s)
print('DESIGN.md regenerated')

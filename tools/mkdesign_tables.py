#!/usr/bin/env python3
"""Print markdown tables for DESIGN.md: (a) per-property status from evidence/ + tools/props.d,
(b) seeded changes and which check catches which (seeded/*/meta.json)."""
import glob, json, os, re
D = os.path.dirname(os.path.dirname(os.path.abspath(__file__)))
print('### Per-property status (from the last committed evidence)\n')
print('| id | theorems closed | quick cases | non-trivial | quick wall (s) | open findings |')
print('|---|---|---|---|---|---|')
known = json.load(open(os.path.join(D, 'known_findings.json')))
for f in sorted(glob.glob(os.path.join(D, 'evidence', 'C*.json'))):
    e = json.load(open(f)); c = e['coverage']
    pid = e['property_id']
    of = sorted({k['id'] for k in known['findings'] if k['property'] == pid})
    print('| %s | %d/%d | %d | %d | %.0f | %s |' % (pid, c['discharged'], c['obligations'], c['evaluations'],
          c['distinct_nontrivial'], e['wall_s'], ', '.join(of) or '—'))
print('\n### Seeded changes (independent sub-agents; each confirmed: demo fails with / passes without, suite unchanged)\n')
print('| seed | property | what it changes / needs | caught by |')
print('|---|---|---|---|')
def nat(s):
    m = re.match(r'(.*?)(\d+)-(\d+)$', s)
    return (m.group(1), int(m.group(2)), int(m.group(3))) if m else (s, 0, 0)
for d in sorted(glob.glob(os.path.join(D, 'seeded', 'C*')), key=lambda x: nat(os.path.basename(x))):
    m = json.load(open(os.path.join(d, 'meta.json')))
    note = ' '.join(m.get('needs_to_manifest', '').split())
    note = re.sub(r'\|', '/', note)[:230]
    print('| %s | %s | %s | %s |' % (m['id'], m['breaks_property'], note, ', '.join(m.get('caught_by') or []) or '**missed**'))

#!/bin/sh
# For every fix: commit, run the owning property's quick check on a worktree with the fix reverted.
cd /verif
while read h p; do
  out=$(VERIF_SEED=4 tools/run_on_patch.sh seeded/revert_$h/patch.diff $p quick 2>&1)
  n=$(echo "$out" | grep -c '^VIOLATION')
  rc=$(echo "$out" | grep '^exit=' | tail -1)
  echo "$h $p violations=$n $rc :: $(cat seeded/revert_$h/what.txt)"
done <<LIST
091bf09 C01
e4a74ae C01
6215680 C01
c8f7b7c C05
eb37a92 C05
5b1121a C05
fc6c52e C05
c6763c1 C05
bafbff1 C13
3286b20 C13
0aa6b11 C07
1d4be62 C09
3ac2e89 C09
1ee63e2 C12
05db76e C08
12ee249 C15
2f054d3 C10
d05edc7 C05
024cec6 C18
bd678e6 C07
1521664 C19
LIST

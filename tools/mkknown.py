#!/usr/bin/env python3
"""Merge known_findings.d/*.json into known_findings.json (run by hand, never by a check)."""
import json, glob, os
D = os.path.dirname(os.path.dirname(os.path.abspath(__file__)))
findings, fixed = [], []
for f in sorted(glob.glob(os.path.join(D, 'known_findings.d', '*.json'))):
    o = json.load(open(f))
    findings += o.get('findings', [])
    fixed += o.get('fixed', [])
out = {'comment': "Committed by hand (generated from known_findings.d by tools/mkknown.py); never written at run time. An 'open' finding is tolerated only where the Coq guard with its guard_index is false AND the implementation's wrong answer equals the faithful model's. 'fixed' entries suppress nothing.",
       'findings': findings, 'fixed': fixed}
tmp = os.path.join(D, 'known_findings.json.tmp')
json.dump(out, open(tmp, 'w'), indent=1)
os.replace(tmp, os.path.join(D, 'known_findings.json'))
print(len(findings), 'open findings,', len(fixed), 'fixed')

#!/bin/sh
# confirm_seed.sh <dir with patch.diff demo.py> : checks, in a scratch worktree of /repo,
#  (1) demo passes on the clean tree, (2) patch applies, (3) demo fails with it,
#  (4) the test suite passes exactly as on the clean tree (182 passed / 3 failed).
# Prints one summary line; removes the worktree.
D="$1"; WT="/tmp/confirm_$$"
git -C /repo worktree add -q --detach "$WT" HEAD || exit 2
cd "$WT"
PYTHONPATH="$WT" timeout 300 /venv/bin/python "$D/demo.py" >"$D/demo_clean.out" 2>&1; c1=$?
if ! git apply "$D/patch.diff" 2>"$D/apply.err"; then echo "$D: PATCH-DOES-NOT-APPLY"; cd /; git -C /repo worktree remove --force "$WT"; exit 1; fi
PYTHONPATH="$WT" timeout 300 /venv/bin/python "$D/demo.py" >"$D/demo_mut.out" 2>&1; c2=$?
PYTHONPATH="$WT" timeout 900 /venv/bin/python -m pytest -q -p no:cacheprovider --timeout=900 tests >"$D/pytest_mut.out" 2>&1
tail_line=$(tail -1 "$D/pytest_mut.out")
failed=$(grep -c '^FAILED' "$D/pytest_mut.out")
echo "$D: demo_clean=$c1 demo_mut=$c2 pytest='$tail_line' failed_lines=$failed"
cd /; git -C /repo worktree remove --force "$WT"

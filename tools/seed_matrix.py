#!/usr/bin/env python3
"""seed_matrix.py Cxx [Cyy ...] [--tier quick] [--also Czz,...]
For every confirmed seed in seeded_pending/ or seeded/ that targets one of the given properties,
run that property's check (and the --also checks) on a scratch worktree with the patch applied.
Writes/updates seeded/<id>/meta.json; prints a matrix."""
import glob, json, os, subprocess, sys, shutil
args = [a for a in sys.argv[1:] if not a.startswith('--')]
tier = 'quick'
also = []
for i, a in enumerate(sys.argv):
    if a == '--tier': tier = sys.argv[i + 1]
    if a == '--also': also = sys.argv[i + 1].split(',')
args = [a for a in args if a not in (tier,) and a not in [','.join(also)]]
os.chdir('/verif')
for prop in args:
    dirs = sorted(glob.glob('seeded_pending/%s-*' % prop)) or sorted(glob.glob('seeded/%s-*' % prop))
    if '--all' in sys.argv:
        dirs = sorted(glob.glob('seeded_pending/%s-*' % prop) + glob.glob('seeded/%s-*' % prop))
    for d in dirs:
        sid = os.path.basename(d)
        caught = []
        runs = []
        for chk in [prop] + also:
            r = subprocess.run(['tools/run_on_patch.sh', os.path.join(d, 'patch.diff'), chk, tier],
                               capture_output=True, text=True, env=dict(os.environ, VERIF_SEED='3'))
            viol = [l for l in r.stdout.splitlines() if l.startswith('VIOLATION')]
            summary = [l for l in r.stdout.splitlines() if l.startswith(chk + ' ')]
            if 'patch does not apply' in r.stdout + r.stderr:
                print('    PATCH DOES NOT APPLY for', sid); runs.append('patch does not apply'); continue
            ok = r.returncode == 1 and bool(viol)
            runs.append('%s %s: exit %d, %d VIOLATION line(s)%s; %s' % (chk, tier, r.returncode, len(viol),
                        ' (no-failing-input-found)' if viol and all('no-failing' in v for v in viol) else '',
                        summary[-1] if summary else r.stdout[-200:]))
            if ok:
                caught.append(chk)
        if any(r_ == 'patch does not apply' for r_ in runs):
            print('%-8s patch does not apply any more; meta.json left unchanged' % sid, flush=True)
            continue
        print('%-8s caught_by=%s' % (sid, caught or 'MISSED'), flush=True)
        for r_ in runs:
            print('    ', r_)
        if d.startswith('seeded_pending'):
            src = d
            subprocess.run(['python3', 'tools/keep_seed.py', src, sid, prop, ','.join(caught) or '-'] +
                           ['tools/run_on_patch.sh patch.diff <check> %s: ' % tier + ' | '.join(runs)])
            shutil.rmtree(src)
        else:
            m = json.load(open(os.path.join(d, 'meta.json')))
            m['caught_by'] = caught
            m['what_i_ran'] = 'tools/run_on_patch.sh patch.diff <check> %s: ' % tier + ' | '.join(runs)
            json.dump(m, open(os.path.join(d, 'meta.json'), 'w'), indent=1)
